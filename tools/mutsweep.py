#!/usr/bin/env python3
"""Developer tool (not a MANIFEST check): systematic mutation sweep of the code a property is anchored in.

  tools/mutsweep.py PROP [--max N] [--jobs J] [--seed S] [--list] [--only FILE:LINE ...]

For PROP, the functions named in the property's anchors (properties.jsonl: mechanism / observe_at texts, looked up in
the anchored files of /repo's *current* tree, so line drift does not matter) are mutated one site at a time with small
syntactic operators (comparison boundary, == / !=, + / -, and / or, dropped `not`, integer constant +-1, boolean
constant flipped, statement deleted).  A deterministic sample of at most N mutants is run:

  scratch copy of /repo/uxarray under /var/tmp  ->  mutant written  ->  ./check PROP --tier quick  (VERIF_REPO=<copy>)

exit 1 = killed, exit 0 = survived, exit 2 = harness error (listed separately; the harness must not fall over).
Results go to mutants/<PROP>.json (site, operator, original and mutated line, outcome, first oracle that fired).
Survivors are what to read: equivalent mutant, or a hole in the generator / oracle.
"""
import argparse
import ast
import hashlib
import json
import os
import random
import re
import shutil
import subprocess
import sys
import tempfile
import time
import warnings
from concurrent.futures import ThreadPoolExecutor

warnings.filterwarnings("ignore")
ROOT = os.path.dirname(os.path.dirname(os.path.abspath(__file__)))
REPO = "/repo"

CMP = {ast.Lt: ("<", "<="), ast.LtE: ("<=", "<"), ast.Gt: (">", ">="), ast.GtE: (">=", ">"), ast.Eq: ("==", "!="), ast.NotEq: ("!=", "==")}


def anchors(prop):
    for l in open(os.path.join(ROOT, "properties.jsonl")):
        p = json.loads(l)
        if p["id"] == prop:
            return p["anchors"]
    raise SystemExit(f"unknown property {prop}")


def target_functions(prop):
    a = anchors(prop)
    text = " ".join(m.get("name", "") for m in a.get("mechanism", [])) + " " + " ".join(a.get("observe_at", []))
    text += " " + " ".join(s.get("name", "") for s in a.get("state", []))
    idents = set(re.findall(r"[A-Za-z_][A-Za-z0-9_]{2,}", text))
    out = []
    for f in a["files"]:
        path = os.path.join(REPO, f)
        if not os.path.exists(path):
            continue
        src = open(path).read()
        tree = ast.parse(src)
        for node in ast.walk(tree):
            if isinstance(node, (ast.FunctionDef, ast.AsyncFunctionDef)) and node.name in idents:
                out.append((f, node.name, node.lineno, node.end_lineno))
    return out


def _off(lines, lineno, col):
    return sum(len(l) for l in lines[: lineno - 1]) + col


def sites_in(src, lo, hi):
    """Yield (lineno, operator, start_offset, end_offset, replacement) for nodes within [lo, hi]."""
    lines = src.splitlines(keepends=True)
    # col offsets are in utf-8 bytes; the sources are ascii in the relevant parts, guard anyway
    tree = ast.parse(src)
    doc_lines = set()
    for node in ast.walk(tree):
        if isinstance(node, (ast.FunctionDef, ast.ClassDef, ast.Module)) and node.body and isinstance(node.body[0], ast.Expr) and isinstance(getattr(node.body[0], "value", None), ast.Constant) and isinstance(node.body[0].value.value, str):
            d = node.body[0]
            doc_lines.update(range(d.lineno, d.end_lineno + 1))

    def between(a_end, b_start, tokens):
        s = _off(lines, *a_end)
        e = _off(lines, *b_start)
        seg = src[s:e]
        for t in tokens:
            m = re.search(r"(?<![<>=!])" + re.escape(t) + r"(?![=])" if t in ("<", ">") else re.escape(t), seg)
            if m:
                return s + m.start(), s + m.end()
        return None

    for node in ast.walk(tree):
        ln = getattr(node, "lineno", None)
        if ln is None or ln < lo or ln > hi or ln in doc_lines:
            continue
        if isinstance(node, ast.Compare) and len(node.ops) == 1 and type(node.ops[0]) in CMP:
            old, new = CMP[type(node.ops[0])]
            pos = between((node.left.end_lineno, node.left.end_col_offset), (node.comparators[0].lineno, node.comparators[0].col_offset), [old])
            if pos:
                yield ln, f"cmp {old}->{new}", pos[0], pos[1], new
        elif isinstance(node, ast.BinOp) and isinstance(node.op, (ast.Add, ast.Sub)):
            if any(isinstance(x, ast.Constant) and isinstance(x.value, str) for x in (node.left, node.right)):
                continue
            if any(isinstance(x, (ast.JoinedStr, ast.List, ast.Tuple)) for x in (node.left, node.right)):
                continue
            old, new = ("+", "-") if isinstance(node.op, ast.Add) else ("-", "+")
            pos = between((node.left.end_lineno, node.left.end_col_offset), (node.right.lineno, node.right.col_offset), [old])
            if pos:
                yield ln, f"arith {old}->{new}", pos[0], pos[1], new
        elif isinstance(node, ast.BoolOp):
            old, new = ("and", "or") if isinstance(node.op, ast.And) else ("or", "and")
            pos = between((node.values[0].end_lineno, node.values[0].end_col_offset), (node.values[1].lineno, node.values[1].col_offset), [old])
            if pos:
                yield ln, f"bool {old}->{new}", pos[0], pos[1], new
        elif isinstance(node, ast.UnaryOp) and isinstance(node.op, ast.Not):
            s = _off(lines, node.lineno, node.col_offset)
            e = _off(lines, node.operand.lineno, node.operand.col_offset)
            yield ln, "drop not", s, e, ""
        elif isinstance(node, ast.UnaryOp) and isinstance(node.op, ast.USub) and not isinstance(node.operand, ast.Constant):
            s = _off(lines, node.lineno, node.col_offset)
            e = _off(lines, node.operand.lineno, node.operand.col_offset)
            yield ln, "drop unary minus", s, e, ""
        elif isinstance(node, ast.Constant) and type(node.value) is int and 0 <= node.value <= 8:
            s = _off(lines, node.lineno, node.col_offset)
            e = _off(lines, node.end_lineno, node.end_col_offset)
            yield ln, f"int {node.value}->{node.value + 1}", s, e, str(node.value + 1)
            if node.value > 0:
                yield ln, f"int {node.value}->{node.value - 1}", s, e, str(node.value - 1)
        elif isinstance(node, ast.Constant) and type(node.value) is bool:
            s = _off(lines, node.lineno, node.col_offset)
            e = _off(lines, node.end_lineno, node.end_col_offset)
            yield ln, f"bool {node.value}->{not node.value}", s, e, str(not node.value)
        elif isinstance(node, (ast.AugAssign, ast.Expr)) or (isinstance(node, ast.Assign) and isinstance(node.targets[0], (ast.Subscript, ast.Attribute))):
            if isinstance(node, ast.Expr) and not isinstance(node.value, ast.Call):
                continue
            if isinstance(node, ast.Expr) and isinstance(node.value.func, ast.Attribute) and node.value.func.attr in ("warn", "append") and node.value.func.attr == "warn":
                continue
            s = _off(lines, node.lineno, node.col_offset)
            e = _off(lines, node.end_lineno, node.end_col_offset)
            yield ln, "delete statement", s, e, "pass"


def enumerate_mutants(prop):
    muts = []
    seen = set()
    for f, name, lo, hi in target_functions(prop):
        src = open(os.path.join(REPO, f)).read()
        if not src.isascii():
            # byte/char offsets could disagree; fall back to per-line ascii check below
            pass
        for ln, op, s, e, rep in sites_in(src, lo, hi):
            key = (f, s, e, rep)
            if key in seen:
                continue
            seen.add(key)
            line = src.splitlines()[ln - 1]
            if not line.isascii():
                continue
            new_src = src[:s] + rep + src[e:]
            try:
                ast.parse(new_src)
            except SyntaxError:
                continue
            muts.append(dict(file=f, func=name, line=ln, op=op, start=s, end=e, rep=rep, orig=line.strip(), mutated=new_src.splitlines()[ln - 1].strip()))
    return muts


def run_one(prop, m, idx, seed):
    S = tempfile.mkdtemp(prefix=f"ms.{prop}.", dir="/var/tmp")
    t0 = time.time()
    try:
        subprocess.run(["rsync", "-a", "--exclude", "__pycache__", os.path.join(REPO, "uxarray"), S + "/"], check=True)
        p = os.path.join(S, m["file"])
        src = open(p).read()
        open(p, "w").write(src[: m["start"]] + m["rep"] + src[m["end"] :])
        env = dict(os.environ, VERIF_REPO=S, VERIF_NUMBA_BASE=os.path.join(S, ".numba"), VERIF_SEED=str(seed), VERIF_REPLAY_DIR=os.path.join(S, "replays"))
        r = subprocess.run(["./check", prop, "--tier", "quick"], cwd=ROOT, env=env, stdout=subprocess.PIPE, stderr=subprocess.STDOUT, text=True)
        lines = [l for l in r.stdout.splitlines() if l.startswith(("VIOLATION", "  oracle=", "HARNESS")) or "violations=" in l]
        out = dict(m)
        out.update(exit=r.returncode, outcome={0: "survived", 1: "killed", 2: "harness-error"}.get(r.returncode, f"exit{r.returncode}"), lines=lines[:4], wall_s=round(time.time() - t0, 1))
        if r.returncode == 2:
            out["tail"] = r.stdout[-1500:]
        return out
    finally:
        shutil.rmtree(S, ignore_errors=True)


def main():
    ap = argparse.ArgumentParser()
    ap.add_argument("prop")
    ap.add_argument("--max", type=int, default=30)
    ap.add_argument("--jobs", type=int, default=3)
    ap.add_argument("--seed", type=int, default=1)
    ap.add_argument("--sample-seed", type=int, default=0)
    ap.add_argument("--list", action="store_true")
    ap.add_argument("--only", nargs="*", default=None, help="FILE:LINE filters")
    ap.add_argument("--anchors-of", default=None, help="enumerate the mutants from this property's anchors, run PROP's check on them")
    ap.add_argument("--rerun", default=None, help="JSON of an earlier sweep: run again the mutants that survived / ended in a harness error there")
    a = ap.parse_args()
    prop = a.prop.upper()
    muts = enumerate_mutants((a.anchors_of or prop).upper())
    if a.rerun:
        prev = json.load(open(a.rerun))["results"]
        keys = {(r["file"], r["func"], r["op"], r["orig"], r["mutated"]) for r in prev if r["outcome"] != "killed"}
        muts = [m for m in muts if (m["file"], m["func"], m["op"], m["orig"], m["mutated"]) in keys]
        a.max = len(muts) + 1
    if a.only:
        want = set(a.only)
        muts = [m for m in muts if f"{m['file']}:{m['line']}" in want or m["func"] in want]
    rng = random.Random(int(hashlib.sha256(f"{prop}-{a.sample_seed}".encode()).hexdigest()[:8], 16))
    if len(muts) > a.max:
        # stratify by function so every anchored function is sampled
        by = {}
        for m in muts:
            by.setdefault((m["file"], m["func"]), []).append(m)
        for v in by.values():
            rng.shuffle(v)
        pick = []
        while len(pick) < a.max and any(by.values()):
            for k in sorted(by):
                if by[k] and len(pick) < a.max:
                    pick.append(by[k].pop())
        total = len(muts)
        muts = pick
    else:
        total = len(muts)
    print(f"{prop}: {total} mutants enumerated in {len(target_functions(prop))} functions, running {len(muts)}", flush=True)
    if a.list:
        for m in muts:
            print(f"  {m['file']}:{m['line']} [{m['func']}] {m['op']}: {m['orig']}  =>  {m['mutated']}")
        return 0
    results = []
    with ThreadPoolExecutor(max_workers=a.jobs) as ex:
        futs = [ex.submit(run_one, prop, m, i, a.seed) for i, m in enumerate(muts)]
        for f in futs:
            r = f.result()
            results.append(r)
            first = next((l.strip() for l in r["lines"] if l.startswith("  oracle=")), "")
            print(f"  {r['outcome']:13s} {r['file']}:{r['line']} [{r['func']}] {r['op']}: {r['orig'][:70]} | {first[:90]} ({r['wall_s']}s)", flush=True)
    os.makedirs(os.path.join(ROOT, "mutants"), exist_ok=True)
    path = os.path.join(ROOT, "mutants", f"{prop}.json" if not a.anchors_of else f"{prop}-on-anchors-of-{a.anchors_of.upper()}.json")
    old = []
    if os.path.exists(path):
        old = json.load(open(path)).get("results", [])
    keyf = lambda r: (r["file"], r["func"], r["op"], r["orig"], r["mutated"])
    merged = {keyf(r): r for r in old}
    for r in results:
        merged[keyf(r)] = r
    res = sorted(merged.values(), key=lambda r: (r["file"], r["line"], r["op"]))
    for r in res:
        r.pop("start", None), r.pop("end", None)
    head = subprocess.run("git -C /repo rev-parse --short HEAD", shell=True, stdout=subprocess.PIPE, text=True).stdout.strip()
    summary = {k: sum(1 for r in res if r["outcome"] == k) for k in ("killed", "survived", "harness-error")}
    json.dump(dict(property=prop, repo_head=head, enumerated=total, summary=summary, results=res), open(path, "w"), indent=1)
    print(f"{prop}: {summary}")
    return 0


if __name__ == "__main__":
    sys.exit(main())
