#!/usr/bin/env python3
"""Developer tool: run the repository's pinned baseline (BASELINE.json) and report any
stable-pass test that no longer passes.  Not a MANIFEST check."""
import json, subprocess, sys, tempfile, os, xml.etree.ElementTree as ET
base = json.load(open("/root/.vp/BASELINE.json"))
out = tempfile.mktemp(suffix=".xml", dir="/var/tmp")
cmd = base["cmd"].replace("<file>", out)
env = dict(os.environ); env.pop("UXARRAY_VERIF", None)
subprocess.run(cmd, shell=True, stdout=subprocess.DEVNULL, stderr=subprocess.DEVNULL, env=env)
passed = set()
for tc in ET.parse(out).getroot().iter("testcase"):
    if not any(c.tag in ("failure", "error", "skipped") for c in tc):
        passed.add(f"{tc.get('classname')}::{tc.get('name')}")
os.remove(out)
missing = [t for t in base["stable_pass"] if t not in passed]
print(f"baseline: {len(base['stable_pass']) - len(missing)}/{len(base['stable_pass'])} stable tests pass; extra passing: {len(passed - set(base['stable_pass']))}")
for m in missing: print("  MISSING", m)
sys.exit(1 if missing else 0)
