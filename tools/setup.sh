#!/bin/sh
# Offline setup: make sure hypothesis imports under /venv/bin/python (install from the
# local wheelhouse into ./.deps otherwise) and create output directories.
cd "$(dirname "$0")/.." || exit 1
mkdir -p evidence replays .scratch .numba
if ! /venv/bin/python -c "import hypothesis" 2>/dev/null; then
  if ! PYTHONPATH="$PWD/.deps" /venv/bin/python -c "import hypothesis" 2>/dev/null; then
    /venv/bin/pip install --no-index --find-links /opt/veriftools/wheels --target "$PWD/.deps" hypothesis || exit 1
  fi
fi
exit 0
