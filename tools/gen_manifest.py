#!/usr/bin/env python3
"""Developer tool: (re)writes MANIFEST.json from the table below."""
import json
import os

ROOT = os.path.dirname(os.path.dirname(os.path.abspath(__file__)))

# property -> (technique, level text, level note, design ref)
CHECKS = {
    "C01": (
        "property-based testing (Hypothesis): writer <-> reader differential (own encoders for every format and dialect vs the library's readers)",
        "Exploration: generated meshes (mixed 3..8-gons, global/partial, pole and antimeridian nodes) are written by independent encoders into "
        "UGRID, MPAS primal/dual, SCRIP, Exodus, ESMF, GEOS-CS, ICON, GeoJSON/shapefile (polygons and multipolygons), face-vertex arrays and "
        "topology arrays under a drawn dialect (start_index absent/0/1, fill none/-1/-999/999999/int64-min/NaN, int32/int64/float64, renamed "
        "variables and dimensions, longitude convention, extra padding columns, Exodus block layout and coordinate layout, ESMF start_index and "
        "pad value, MPAS padding style and radius), in memory or through a file on disk, and opened with the public readers. Checked: faces in "
        "order with cyclically equal corner positions, the standard form of the result, and that supplied centres, edge/face connectivity "
        "(through the source's own edge numbering) and areas are carried over with the same meaning.",
        "Trusted: vlib/writers.py emits well-formed sources only (dialects a specification leaves undefined are not generated); geopandas as the "
        "decoder of GeoJSON/shapefile rings; position equality 1e-7 rad / pole cap.",
        "DESIGN.md section 6, C01",
    ),
    "C02": (
        "property-based testing (Hypothesis) + exhaustive small-scope enumeration vs. set-based reference model",
        "Exploration, with an exhaustively enumerated small scope: every face-node table of up to 2 faces of sizes 3-5 on <=6 nodes "
        "(thorough: more sizes and 3-face tables) plus generated meshes of many families (mixed 3..8-gons, partial, subdivided "
        "edges, extra padding columns, any numbering/starting corner, memory layouts, access orders, an interleaved second grid) "
        "are built through Grid.from_topology and the derived edge tables compared with a reference model built from the "
        "definition (edge set, positional face-edge correspondence, corner counts, Euler count).",
        "Trusted: the reference model in vlib/refmodel.py (sets of consecutive corner pairs); Grid.from_topology stores a "
        "standard-form table unchanged (C01).",
        "DESIGN.md section 6, C02",
    ),
    "C03": (
        "property-based testing (Hypothesis) + exhaustive small-scope enumeration vs. set-based reference model",
        "Exploration with an exhaustively enumerated small scope (all manifold tables of C02's scope) plus generated manifold "
        "meshes (boundaries, holes, isolated faces, pole fans of valence up to 9, faces sharing several edges) and MPAS-like "
        "sources that supply their own edge numbering and a drawn subset of tables. node_face / edge_face / face_face / "
        "hole_edge_indices are compared with incidence sets computed from the face lists; dtype and padding are checked.",
        "Trusted: vlib/refmodel.py; the MPAS-like writer in vlib/writers.py (it only withholds tables in combinations a "
        "well-formed source can have).",
        "DESIGN.md section 6, C03",
    ),
    "C04": (
        "property-based testing (Hypothesis): independent coordinate conversion oracle over provenance x access-order histories",
        "Exploration: generated meshes (planted pole / antimeridian / prime-meridian nodes) under eight provenance combinations "
        "(lon/lat only incl. 0..360, xyz only, both via MPAS-like sources with radius 1 or 6371229, centres supplied as "
        "lon/lat, xyz, both or not at all) and a drawn permutation of first accesses of the 15 coordinate properties with "
        "normalize_cartesian_coordinates() at a drawn point; every reported (lon, lat) is compared with (x, y, z)/|xyz|, with "
        "the source positions, with the centroid / arc-midpoint definition, with the stated ranges and unit length.",
        "Trusted: vlib/sphere.py conversions; position equality = 1e-7 rad or same 1e-8 pole cap; the MPAS-like writer.",
        "DESIGN.md section 6, C04",
    ),
    "C05": (
        "property-based testing (Hypothesis) with exact-formula and metamorphic oracles + exhaustive check of all quadrature tables",
        "Exploration plus an exhaustive finite part: all 15 quadrature tables are checked for moment exactness; generated strictly "
        "convex faces (3-8 corners, anywhere on the sphere incl. poles/antimeridian, four size classes) and closed hull meshes "
        "are compared with the exact spherical excess at the default rule (1e-6/1e-4/1e-2 by size class) and at the highest "
        "orders (1e-6), and put through metamorphic relations: start corner, node/face renumbering, rigid rotation, "
        "lon/lat vs Cartesian input, additivity under a diagonal split, cached face_areas vs fresh default after other "
        "area calls, 4*pi tiling.",
        "Trusted: Van Oosterom-Strackee solid-angle formula in vlib/sphere.py as the exact area; accuracy claimed only for "
        "convex faces <= 65 degrees across; table exactness demanded to degree 2n-3 (gaussian) / N (triangular).",
        "DESIGN.md section 6, C05",
    ),
    "C06": (
        "property-based testing (Hypothesis): differential oracle (independent weighted sum with fresh-grid areas) + linearity",
        "Exploration: generated grids (incl. solids and single polygons where n_face equals n_node or n_edge) x face-centred "
        "arrays of rank 1-4 and five dtypes x every supported (rule, order) x a drawn history of earlier integrate calls on the "
        "same grid are compared with tensordot(values, areas) where the areas come from a fresh grid asked once for that rule "
        "and order; linearity, ones -> total area, dims/name/grid of the result; node- and edge-dimensioned arrays must raise.",
        "Trusted: numpy tensordot; areas are judged by C05; dyadic-rational data make float64 sums exact.",
        "DESIGN.md section 6, C06",
    ),
    "C07": (
        "property-based testing (Hypothesis): round-trip oracle over generated histories of materialisations and encodings (stateful sequences)",
        "Exploration: histories over a pool of 1-3 grids (mixed sizes, partial/global; built from lon/lat topology arrays, Cartesian face "
        "vertices, or an MPAS-like source) of 1-8 steps, each materialising one of 16 lazily derived quantities or encoding a grid to ugrid / "
        "exodus / scrip through to_xarray or encode_as, optionally through a NetCDF file. After every encode the result is re-opened and must "
        "have the same faces (order kept for UGRID/SCRIP, multiset for Exodus) in standard form; the UGRID topology variable may only name "
        "variables, coordinates and dimensions that exist; the dataset must be writable to NetCDF and readable again.",
        "Trusted: the abstract mesh as the expected faces; vlib/sphere.py position equality; xarray/netCDF4 for file I/O.",
        "DESIGN.md section 6, C07",
    ),
    "C08": (
        "property-based testing (Hypothesis): generated operation histories, each result compared with the same call on a freshly built grid; module-global snapshots; JIT on/off shard pairs on identical cases",
        "Exploration: histories of 2-20 public read-only operations (40 lazily computed attributes, compute_face_areas / calculate_total_face_area "
        "with any rule/order/coordinate kind, to_xarray in three formats, the three geometry exports with drawn arguments, ball / kd trees in every "
        "configuration with a probe query, chunk, isel, bounding_circle, constant-latitude faces, get_dual; plus near-repeats of earlier calls with one "
        "argument changed) interleaved over a pool of 1-3 grids built from four kinds of source. Every result is compared at once with the same call "
        "on a grid freshly built from the same source in the same process (integers exact, floats 1e-12; exports and inventory views by the "
        "superset rule; equal exceptions count as equal). After every case the module-level dictionaries of uxarray.conventions / constants are "
        "compared with their import-time snapshot. Shards 2j / 2j+1 run the same cases with JIT on / off and their recorded results are compared.",
        "Trusted: a freshly built grid in the same process is the property's own reference; values derived on fresh grids are judged by the other "
        "properties; histories are bounded (<= 20 operations, <= 3 grids).",
        "DESIGN.md section 6, C08",
    ),
    "C09": (
        "property-based testing (Hypothesis): set-based reference selection + geometric data matching + differential against a freshly built grid, over histories and thread counts",
        "Exploration: source grids (topology-built or MPAS-like with their own edge tables) x a drawn set of derived quantities materialised first x one "
        "selection (isel by face/node/edge indices in every index form; bounding boxes incl. antimeridian-spanning ones planted around nodes on "
        "lon = +-180; bounding circles; k nearest neighbours for all element kinds; constant-latitude cross-sections incl. a node's own latitude) x "
        "optional face/node/edge-centred data of rank 1-3, through the grid or the data array x numba thread count 1/2/4/16. The selected faces must be "
        "exactly the reference selection (incidence sets and my own spherical distances), without duplicates, with the corner positions of the recorded "
        "source faces; sliced data must sit on the same physical elements (matched by position); edge/face/node connectivity, corner counts, Cartesian "
        "coordinates, centres, areas and edge centres of the result must equal those of a grid freshly built from the result's own faces.",
        "Trusted: vlib/refmodel.py, vlib/sphere.py; fresh grids as judged by C02-C05; thread interleavings are not controlled, only the thread count.",
        "DESIGN.md section 6, C09",
    ),
    "C10": (
        "property-based testing (Hypothesis): generated operation programs run in lock-step against plain xarray (differential oracle) + grid-attachment invariants",
        "Exploration: programs of 1-6 operations drawn from a catalogue of ~60 xarray operations (arithmetic, comparisons, numpy ufuncs, where/clip/"
        "fillna/astype, keyword / positional / combined indexing, reductions, cumulative and rolling operations, transpose, rename, coordinate "
        "assignment, expand/squeeze, shift/diff, concat, shallow and deep copy) interleaved with uxarray's isel on grid dimensions, integrate, "
        "gradient, difference, topological_mean, remap and get_dual, applied to face-, node- or edge-centred UxDataArrays and to a plain "
        "xarray.DataArray shadow. After every step: the result is a UxDataArray, attached to the same grid (deep copy: a different, equal "
        "grid), values/dims/dtype/name identical to plain xarray, and every grid dimension's length equals the attached grid's element count.",
        "Trusted: plain xarray as reference; uxarray's own operators are judged for values by other properties; the apply_ufunc family is a "
        "recorded known finding, after which the result is re-wrapped so programs continue.",
        "DESIGN.md section 6, C10",
    ),
    "C11": (
        "property-based testing (Hypothesis): brute-force nearest-neighbour oracle over histories of tree requests",
        "Exploration: histories of 1-5 tree requests on one generated grid; each step draws tree type, element kind, one of the documented "
        "configurations (ball+haversine, ball+Cartesian, kd+Cartesian, kd+spherical), reconstruct, and a k-nearest (k incl. 1, n-1, n) or radius "
        "query with 1-4 points in degrees or radians, planted at +-180 longitude, at / near the poles and on top of elements. Results are compared "
        "with a brute-force search over element positions recomputed from the mesh under the requested metric (tie-tolerant), including order, "
        "index dtype, distance units, and the configuration the returned tree reports.",
        "Trusted: vlib/sphere.py distances; documented call conventions ((lon, lat) for ball+spherical, (lat, lon) for kd+spherical, radius in "
        "degrees for ball+spherical); tolerance 1e-9 rad (5e-8 near the antipode).",
        "DESIGN.md section 6, C11",
    ),
    "C12": (
        "property-based testing (Hypothesis): brute-force nearest-source oracle + extracted IDW weight matrix (convexity, support, monotonicity, linearity)",
        "Exploration: generated source/destination grid pairs (incl. Voronoi sources whose face centres are supplied and differ from the corner "
        "mean, and solids where n_node == n_face / n_edge) x data on nodes, edges or faces with 0-2 leading dims x three destinations x both "
        "coordinate types. Nearest-neighbour results are compared with the brute-force great-circle nearest source element of the data's own "
        "kind (ties skipped), identity onto the source's own elements; for IDW the whole weight matrix is extracted by remapping an identity "
        "field and must be non-negative, sum to one, vanish outside the brute-force k nearest and not increase with distance, every other "
        "field must equal data @ weights and constants must be reproduced; dims/name/destination grid of every result.",
        "Trusted: vlib/sphere.py distances; element positions recomputed from the mesh in the grid's own numbering; IDW distance unit not asserted.",
        "DESIGN.md section 6, C12",
    ),
    "C13": (
        "property-based testing (Hypothesis): independent enclosure/tightness oracle (sampling + analytic apex + shortest longitude cover) over constructed convex faces",
        "Exploration: strictly convex faces with 3-8 corners built by construction anywhere on the sphere (four size classes up to 88 degrees "
        "across; planted: centre at / near a pole, on the antimeridian, prime meridian, equator; wide faces whose lowest corner starts a "
        "poleward-bulging edge; a corner exactly at a pole with an arbitrary stored longitude; every traversal start), alone or as the faces "
        "of generated hull / lat-lon meshes with padding. Every corner, 64 samples and the analytic apex of every edge must lie in the "
        "reported box (2e-8 rad), latitude bounds must be attained (1e-7), the longitude interval must be the shortest cover of the corner "
        "longitudes or the full circle exactly when a pole is strictly inside.",
        "Trusted: vlib/sphere.py (slerp sampling, apex formula, orientation test); longitude is monotone along a great-circle arc that "
        "misses the poles, so the corner longitudes determine the shortest cover; faces with a pole within 1e-6 of an edge give no verdict.",
        "DESIGN.md section 6, C13",
    ),
    "C14": (
        "property-based testing (Hypothesis) against an exact rational-arithmetic oracle, margin-controlled generation, metamorphic relations",
        "Exploration: cases carry the actual float vectors; the exact relation (point on the arc's great circle and between its "
        "endpoints; number and position of common points of two arcs) is decided with fractions.Fraction on those floats, and a "
        "verdict is issued only when every decision boundary is >= 1e-6 rad away. Positive on-circle cases come from the nine "
        "planes where float coordinates make the determinant vanish identically (equator, meridians incl. pole-crossing and "
        "antimeridian arcs, tilted circles). Extreme latitudes are compared with an independent apex formula cross-checked by "
        "sampling. Metamorphic: endpoint swap, arc swap, rotation about the polar axis.",
        "Trusted: Python Fraction arithmetic; vlib/sphere.py for margins and the apex formula; inputs inside the library's "
        "documented 1e-8 pole-snapping cap (but not exactly at the pole) give no verdict.",
        "DESIGN.md section 6, C14",
    ),
    "C15": (
        "property-based testing (Hypothesis): stateless geometric oracle applied after every step of generated conversion histories + re-inspection of earlier results",
        "Exploration: histories of 1-6 conversions (Grid.to_geodataframe / to_polycollection / to_linecollection, UxDataArray.to_geodataframe / "
        "to_polycollection) with drawn periodic_elements, engine, projection (None, Robinson, Mollweide with a drawn central longitude), cache and "
        "override, on generated meshes (merged hull meshes and lat-lon bands with faces across the antimeridian). After every call the returned "
        "object is judged against the mesh alone: rows <-> faces, vertices = corners or their cartopy images in cyclic order, antimeridian set, "
        "'exclude' drops exactly those faces, 'split' pieces stay in [-180, 180], do not span the antimeridian and cover the face (sampled both "
        "ways, tolerance = geodesic-vs-straight cut displacement), data values sit on the polygons of their own faces (matched geometrically); "
        "every object returned earlier is re-inspected after every later call.",
        "Trusted: cartopy transform_points and shapely for the expected images / containment; meshes are made planar-safe by construction (edges <= "
        "35 degrees, |lat| <= 70, no pole inside, counter-clockwise in the plane); PlateCarree projections are not generated (cartopy API drift).",
        "DESIGN.md section 6, C15",
    ),
    "C16": (
        "property-based testing (Hypothesis): independent geodesic oracle + per-edge reference differences/gradients",
        "Exploration: generated grids (mixed, partial with boundary edges, n_face above/below n_node, MPAS-like sources with "
        "supplied dvEdge/dcEdge in their own edge numbering) x face-/node-centred data of rank 1-4; edge_node_distances and "
        "edge_face_distances are compared with great-circle distances computed from the source positions (supplied values "
        "must be carried), difference/gradient with per-edge references over the edge's own neighbours, plus zero on "
        "boundary edges and constant fields, unit norm when normalised, independence along leading dims, dims/grid.",
        "Trusted: vlib/sphere.py (atan2 great-circle distance); the grid's own edge_node/edge_face rows define 'edge e'.",
        "DESIGN.md section 6, C16",
    ),
    "C17": (
        "property-based testing (Hypothesis): per-element reference reduction (differential oracle)",
        "Exploration: generated mixed-size meshes (incl. face-size gaps, padding columns, any face order) x node-centred arrays "
        "of rank 1-4 and five dtypes x ten reductions x two destinations are compared element by element with a Python loop "
        "applying the same numpy reduction to exactly the element's corner nodes; dims/grid of the result and raising on "
        "unsupported combinations are checked.",
        "Trusted: numpy reductions on small gathered arrays; node dimension last; values are dyadic rationals so float64 "
        "results are exact.",
        "DESIGN.md section 6, C17",
    ),
    "C18": (
        "property-based testing (Hypothesis): reference ring walk (set-based model) vs dual connectivity, JIT on and off",
        "Exploration: generated closed and partial meshes (hull triangulations merged into 3..8-gons, Voronoi meshes, lat-lon grids with pole "
        "fans, prisms/antiprisms/pyramids/cubed spheres, any numbering, planted pole/antimeridian nodes), half of the shards with "
        "NUMBA_DISABLE_JIT=1. For every node of valence 3..8 the dual face must be, as a cyclic sequence, the faces met when walking around "
        "the node across shared edges in the faces' own counter-clockwise orientation (members, adjacency and orientation in one relation), "
        "padded only at the end, with a one-turn geometric winding cross-check; dual nodes must sit at the face centroids; the number of dual "
        "faces must be the number of nodes with >= 3 faces; on closed meshes face-/node-centred data must come back node-/face-centred, "
        "unchanged and unpermuted, on an identical dual grid.",
        "Trusted: vlib/refmodel.dual_ring; centroid = normalised corner mean; meshes judged only when every face is strictly convex and within "
        "75 degrees of its centroid.",
        "DESIGN.md section 6, C18",
    ),
    "C19": (
        "property-based testing (Hypothesis): deep before/after snapshots over generated constructor x mutation x export-edit histories",
        "Exploration: ten constructor paths (from_topology / open_grid(dict) with ndarray or list inputs, dtypes, start_index, fill and longitude "
        "dialects; from_face_vertices; from_dataset on my UGRID, MPAS, ESMF, SCRIP, Exodus and ICON datasets with attributes) followed by "
        "histories of 1-6 steps over {original, copy()}: public mutators on either side (construct_face_centers, normalize, chunk, setters, lazy "
        "derivation) and caller edits of exported datasets and GeoDataFrames. Every input is deep-snapshotted before and compared after "
        "construction, derivation, copy and at the end; after each mutation the other side's exported variables must be unchanged; after each "
        "export edit the grid's reports must be unchanged.",
        "Trusted: observations are taken through to_xarray('ugrid'); snapshots compare bytes, dtypes, dims and attributes.",
        "DESIGN.md section 6, C19",
    ),
    "C20": (
        "property-based testing (Hypothesis): generated grid pairs vs. definitional equality oracle",
        "Exploration: generated pairs of grids differing in exactly one longitude / latitude / connectivity entry / "
        "element count / source format (and identical rebuilds, copies, non-Grid operands) are compared with == and != "
        "in both operand orders against the definition in the property. Finds a wrong connective or a dropped comparison "
        "with near certainty; cannot show absence for inputs outside the generated mesh families.",
        "Trusted: Grid.from_topology builds the arrays it is given (checked by C01); numpy/xarray equality semantics.",
        "DESIGN.md section 6, C20",
    ),
}

NOT_YET = {}


# later extensions of the generators / oracles, appended to the level text
ADDENDA = {
    "C01": " Exodus sources with up to one block per element; after the tables the source did not carry have been derived, faces and carried tables are judged again.",
    "C03": " Node tables with unused (orphan) entries; int64 sources opened twice.",
    "C04": " Orphan nodes, cells down to 1e-3 degrees; after the access history the face centres are rebuilt with construct_face_centers (both methods) and both coordinate systems are compared again.",
    "C05": " Areas of a mesh carrying Cartesian node coordinates on a sphere of radius 2.5 / 6371229 must equal those of the unit-sphere grid.",
    "C07": " Tiny and micro patches (cells down to 2e-6 degrees, judged by the tolerance-free count of distinct corner nodes) and node tables with orphan entries.",
    "C09": " Sources with Cartesian coordinates on a non-unit sphere (MPAS sphere_radius, node_x/y/z next to lon/lat).",
    "C10": " Reductions over the grid dimension, copy.deepcopy, a deep-copy probe of every other result, and the same index list along two grid dimensions on two arrays of one grid (judged against a fresh grid).",
    "C11": " The caller's query array is compared with a private copy after every query; grids may carry Cartesian coordinates on a non-unit sphere.",
    "C12": " Destinations include a second Grid of the source mesh with other supplied centres or its own edge numbering; either side may supply an edge table and Cartesian coordinates on a non-unit sphere; the source variable must be unchanged.",
    "C13": " A quarter of the grids also carry Cartesian node coordinates on a sphere of radius 1, 2.5 or 6371229.",
    "C15": " A quarter of the grids carry Cartesian node coordinates at radius 6371229.",
    "C16": " Topology-array grids carry Cartesian node coordinates at radius 6371229 in half of the cases; the variable differenced must be unchanged.",
    "C17": " Orphan nodes; the aggregated variable must be unchanged.",
    "C18": " Grids with Cartesian coordinates on a non-unit sphere; duals of face subsets taken from a fresh grid, after node_face_connectivity, or after the whole grid's dual.",
    "C19": " Topology constructors also receive caller-owned node_x/y/z; UxDataArray.to_geodataframe cached and with cache=False on a grid that already holds a frame.",
    "C20": " For grids built from Cartesian face vertices the expectation follows the points handed in.",
}


def main():
    props = [json.loads(l) for l in open(os.path.join(ROOT, "properties.jsonl"))]
    checks, na = [], []
    for p in props:
        pid = p["id"]
        if pid in CHECKS:
            tech, text, note, ref = CHECKS[pid]
            text = text + ADDENDA.get(pid, "")
            checks.append(
                {
                    "property_id": pid,
                    "quick_cmd": f"./check {pid} --tier quick",
                    "thorough_cmd": f"./check {pid} --tier thorough",
                    "evidence_file": f"evidence/{pid}.json",
                    "replay_cmd_template": f"./check {pid} --replay {{path}}",
                    "engine": "vlib",
                    "level_claimed": {"category": "exploration", "text": text, "design_ref": ref},
                    "level_note": note,
                    "technique": tech,
                }
            )
        else:
            na.append({"property_id": pid, "reason": NOT_YET.get(pid, "check not built yet in this session (planned: property-based test, see DESIGN.md section 6); not claimed until it exists")})
    man = {
        "version": 1,
        "setup_cmd": "sh tools/setup.sh",
        "hooks": {
            "guard": "UXARRAY_VERIF",
            "enable": "no instrumentation of /repo is needed: every observation point is public API or a module global; ./check exports UXARRAY_VERIF=1 for uniformity and puts $VERIF_REPO (default /repo) first on sys.path so the working tree is what runs",
            "baseline_off_cmd": "cd /repo && /venv/bin/python -m pytest -ra -q -p no:cacheprovider --timeout=900 --continue-on-collection-errors",
            "source_commits": [],
            "add_only": True,
        },
        "engines": [
            {
                "name": "vlib",
                "path": "vlib/",
                "serves_properties": sorted(CHECKS),
                "kind_free_text": "Hypothesis-driven property-based testing harness: JSON case model, sharded seeded generation, shrinking to replay files, known-finding matching, evidence writer",
            }
        ],
        "checks": checks,
        "not_applicable": na,
        "notes": "All checks: ./check <ID> --tier quick|thorough; VERIF_SEED selects the Hypothesis seed; exit 0 held / 1 VIOLATION / 2 harness error. Known findings: known_findings.json (never written at run time).",
    }
    with open(os.path.join(ROOT, "MANIFEST.json"), "w") as fh:
        json.dump(man, fh, indent=1)
        fh.write("\n")
    print(f"MANIFEST.json: {len(checks)} checks, {len(na)} not_applicable")


if __name__ == "__main__":
    main()
