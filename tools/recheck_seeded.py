#!/usr/bin/env python3
"""Developer tool (not a MANIFEST check): re-run every seeded change under seeded/ against the current checks.

  tools/recheck_seeded.py [NAME ...]

For each seeded/<name>/patch.diff: copy /repo's working tree to a scratch directory under /var/tmp, apply the patch there,
run the quick check of the property it targets (and of every property that detected it before) with VERIF_REPO=<copy>,
and record the outcome in seeded/<name>/meta.json under "recheck".  The copy is removed afterwards.  /repo is never touched."""
import json
import os
import shutil
import subprocess
import sys
import tempfile

ROOT = os.path.dirname(os.path.dirname(os.path.abspath(__file__)))


def sh(cmd, cwd=None, env=None):
    p = subprocess.run(cmd, shell=True, cwd=cwd, env=env, stdout=subprocess.PIPE, stderr=subprocess.STDOUT, text=True)
    return p.returncode, p.stdout


def main():
    names = sys.argv[1:] or sorted(os.listdir(os.path.join(ROOT, "seeded")))
    head = sh("git -C /repo rev-parse --short HEAD")[1].strip()
    for name in names:
        d = os.path.join(ROOT, "seeded", name)
        mp = os.path.join(d, "meta.json")
        if not os.path.exists(mp):
            continue
        meta = json.load(open(mp))
        props = [meta["property"]] + [p for p in meta.get("detected_by", []) if p != meta["property"]]
        S = tempfile.mkdtemp(prefix="re.", dir="/var/tmp")
        out = {"repo_head": head, "checks": {}}
        try:
            sh(f"rsync -a --exclude .git --exclude docs --exclude __pycache__ /repo/ {S}/")
            sh("git init -q .", cwd=S)
            rc, o = sh(f"git apply --whitespace=nowarn {os.path.join(d, 'patch.diff')}", cwd=S)
            out["patch_applies"] = rc == 0
            if rc != 0:
                # context drifted through later fixes: let patch(1) place the hunks (offsets, fuzz 3)
                rc, o = sh(f"patch -p1 -F3 --no-backup-if-mismatch < {os.path.join(d, 'patch.diff')}", cwd=S)
                out["patch_applies"] = rc == 0
                out["apply_note"] = ("applied with patch -F3: " if rc == 0 else "") + o[-300:]
            if out["patch_applies"]:
                for p in props:
                    rc, o = sh(f"./check {p} --tier quick", cwd=ROOT, env=dict(os.environ, VERIF_REPO=S))
                    lines = [l for l in o.splitlines() if l.startswith(("VIOLATION", "  oracle=", "HARNESS")) or "violations=" in l]
                    out["checks"][p] = {"exit": rc, "lines": lines[:6]}
            out["detected_by"] = [p for p, r in out["checks"].items() if r["exit"] == 1]
            meta["recheck"] = out
            json.dump(meta, open(mp, "w"), indent=1)
            print(name, "applies" if out["patch_applies"] else "DOES-NOT-APPLY", "detected_by", out["detected_by"], flush=True)
        finally:
            shutil.rmtree(S, ignore_errors=True)


if __name__ == "__main__":
    main()
