#!/usr/bin/env python3
"""Developer tool (not a MANIFEST check): confirm a seeded defect delivered by a sub-agent and
store it under seeded/<name>/.

  tools/confirm_seed.py <name> <patch.diff> <demo.py> <agent_meta.json> <PROP> [<PROP> ...]

Steps, all in a scratch copy of /repo's current tree under /var/tmp (removed afterwards):
  1. demo on the unpatched copy must exit 0;
  2. patch applies; demo on the patched copy must exit non-zero;
  3. the repository's pinned baseline (BASELINE.json stable_pass) must still pass on the patched copy;
  4. run the listed property checks (quick tier) against the patched copy and record which fire.
"""
import json
import os
import shutil
import subprocess
import sys
import tempfile
import xml.etree.ElementTree as ET

ROOT = os.path.dirname(os.path.dirname(os.path.abspath(__file__)))


def sh(cmd, cwd=None, env=None, timeout=3600):
    p = subprocess.run(cmd, shell=True, cwd=cwd, env=env, stdout=subprocess.PIPE, stderr=subprocess.STDOUT, text=True, timeout=timeout)
    return p.returncode, p.stdout


def main():
    name, patch, demo, ameta, *props = sys.argv[1:]
    skip_tests = "--skip-tests" in props
    props = [p for p in props if not p.startswith("--")]
    patch, demo, ameta = map(os.path.abspath, (patch, demo, ameta))
    S = tempfile.mkdtemp(prefix="seed.", dir="/var/tmp")
    out = {"name": name, "checks": {}}
    try:
        sh(f"rsync -a --exclude .git --exclude docs --exclude __pycache__ /repo/ {S}/")
        env = dict(os.environ, PYTHONPATH=S, NUMBA_CACHE_DIR=os.path.join(S, ".nb0"), PYTHONWARNINGS="ignore")
        env.pop("UXARRAY_VERIF", None)
        rc0, o0 = sh(f"/venv/bin/python {demo}", cwd=S, env=env)
        out["demo_without_patch"] = {"exit": rc0, "tail": o0[-400:]}
        sh("git init -q .", cwd=S)
        rca, oa = sh(f"git apply --whitespace=nowarn {patch}", cwd=S)
        out["patch_applies"] = rca == 0
        if rca != 0:
            out["apply_output"] = oa[-500:]
            print(json.dumps(out, indent=1))
            return 3
        sh(f"find {S} -name __pycache__ -type d -exec rm -rf {{}} +")
        env["NUMBA_CACHE_DIR"] = os.path.join(S, ".nb1")
        rc1, o1 = sh(f"/venv/bin/python {demo}", cwd=S, env=env)
        out["demo_with_patch"] = {"exit": rc1, "tail": o1[-600:]}
        if not skip_tests:
            base = json.load(open("/root/.vp/BASELINE.json"))
            xml = os.path.join(S, "junit.xml")
            sh(f"/venv/bin/python -m pytest -q -p no:cacheprovider --timeout=900 --continue-on-collection-errors --junitxml={xml} test/", cwd=S, env=env)
            passed = set()
            for tc in ET.parse(xml).getroot().iter("testcase"):
                if not any(c.tag in ("failure", "error", "skipped") for c in tc):
                    passed.add(f"{tc.get('classname')}::{tc.get('name')}")
            missing = [t for t in base["stable_pass"] if t not in passed]
            out["baseline_with_patch"] = {"stable_pass": len(base["stable_pass"]) - len(missing), "missing": missing}
        for p in props:
            e2 = dict(os.environ, VERIF_REPO=S)
            rc, o = sh(f"./check {p} --tier quick", cwd=ROOT, env=e2)
            lines = [l for l in o.splitlines() if l.startswith(("VIOLATION", "  oracle=", "KNOWN", "HARNESS")) or "violations=" in l]
            out["checks"][p] = {"exit": rc, "lines": lines[:12]}
        ok = rc0 == 0 and rc1 != 0 and (skip_tests or not out["baseline_with_patch"]["missing"])
        out["confirmed"] = ok
        d = os.path.join(ROOT, "seeded", name)
        os.makedirs(d, exist_ok=True)
        shutil.copy(patch, os.path.join(d, "patch.diff"))
        shutil.copy(demo, os.path.join(d, "demo.py"))
        meta = {}
        try:
            meta = json.load(open(ameta))
        except Exception:
            pass
        meta_out = {
            "property": meta.get("property", props[0] if props else None),
            "summary": meta.get("summary"),
            "needs": meta.get("needs"),
            "files": meta.get("files"),
            "agent_reported": {k: meta.get(k) for k in ("tests_run", "demo_without_patch", "demo_with_patch")},
            "confirmed_here": out,
            "repo_head": sh("git -C /repo rev-parse --short HEAD")[1].strip(),
            "what_i_ran": "tools/confirm_seed.py: demo on scratch copy of /repo (exit 0), patch applied (git apply), demo again (exit != 0), pinned baseline on patched copy, then ./check <PROP> --tier quick with VERIF_REPO=<patched copy>",
            "detected_by": [p for p, r in out["checks"].items() if r["exit"] == 1],
        }
        with open(os.path.join(d, "meta.json"), "w") as fh:
            json.dump(meta_out, fh, indent=1)
        print(json.dumps(out, indent=1))
        return 0 if ok else 1
    finally:
        shutil.rmtree(S, ignore_errors=True)


if __name__ == "__main__":
    sys.exit(main())
