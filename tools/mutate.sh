#!/bin/sh
# Developer tool (not a MANIFEST check): run checks against a scratch copy of /repo with a patch applied.
#   tools/mutate.sh <patch.diff> <PROP> [<PROP> ...] [-- extra ./check args]
# The copy lives under /var/tmp and is removed afterwards.
patch="$(realpath "$1")"; shift
S=$(mktemp -d /var/tmp/mut.XXXXXX)
mkdir -p "$S"
rsync -a --exclude .git --exclude docs --exclude '__pycache__' /repo/ "$S/" >/dev/null
( cd "$S" && git init -q . 2>/dev/null; git -C "$S" apply --whitespace=nowarn "$patch" ) || { echo "PATCH FAILED"; rm -rf "$S"; exit 3; }
props=""; extra=""
while [ $# -gt 0 ]; do if [ "$1" = "--" ]; then shift; extra="$*"; break; fi; props="$props $1"; shift; done
rc=0
for p in $props; do
  echo "=== $p on mutant $(basename "$patch")"
  VERIF_REPO="$S" ./check "$p" --tier quick $extra 2>&1 | grep -E "VIOLATION|oracle=|HARNESS|violations=|KNOWN" | head -12
done
rm -rf "$S"
