#!/bin/sh
# Developer tool: run every registered quick command once (refreshes evidence/*.json) and print a summary line per check.
cd "$(dirname "$0")/.." || exit 2
for id in $(/venv/bin/python -c "import json;print(' '.join(c['property_id'] for c in json.load(open('MANIFEST.json'))['checks']))"); do
  out=$(./check "$id" --tier quick 2>&1); rc=$?
  echo "$id rc=$rc $(echo "$out" | grep -c '^VIOLATION') violations; $(echo "$out" | tail -1 | cut -c1-160)"
done
