"""Data arrays for the data-carrying properties.  A data spec is JSON-able:
    {"lead": [sizes of leading dims], "dtype": "float64", "values": [flat ints] | None, "seed": int, "scale": 8}
Values are small integers divided by `scale` (dyadic rationals: sums are exact in float64,
so reference and implementation agree to rounding regardless of summation order)."""

import numpy as np
from hypothesis import strategies as st

from .core import sampled_from  # noqa: E402

LEAD_NAMES = ["time", "lev", "ens"]
DTYPES = ["float64", "float32", "int64", "int32", "bool"]


STORES = ["C", "C", "C", "F", "T", "dask"]
# narrow integer types: values are scaled up to the edge of the type (sums and products of two of them leave it)
NARROW = {"int16": 4000, "uint8": 30, "int8": 15, "uint16": 8000, "int32": 250_000_000}


@st.composite
def data_spec(draw, n_elem, dtypes=DTYPES, max_lead=3, vmax=8, explicit_limit=160, stores=("C",), big=False):
    nlead = draw(st.integers(0, max_lead))
    lead = [draw(st.integers(1, 3)) for _ in range(nlead)]
    dtype = draw(sampled_from(dtypes))
    total = int(np.prod(lead)) * n_elem if lead else n_elem
    spec = {"lead": lead, "dtype": dtype, "scale": 8 if dtype.startswith("float") else 1, "vmax": vmax}
    if len(stores) > 1:
        # how the array handed to the library is held: C order, Fortran order, the transposed view of an array stored
        # with the element dimension first, or chunked (dask)
        spec["store"] = draw(sampled_from(list(stores)))
    if big and dtype in NARROW and draw(st.booleans()):
        spec["big"] = True
    if total <= explicit_limit:
        spec["values"] = draw(st.lists(st.integers(-vmax, vmax), min_size=total, max_size=total))
        spec["seed"] = 0
    else:
        spec["values"] = None
        spec["seed"] = draw(st.integers(0, 2**31 - 1))
    return spec


def materialise(spec, n_elem):
    shape = tuple(spec["lead"]) + (n_elem,)
    total = int(np.prod(shape))
    if spec.get("values") is not None:
        raw = np.asarray(spec["values"], dtype=np.int64)
        if raw.size != total:  # replay robustness
            raw = np.resize(raw, total)
    else:
        rs = np.random.RandomState(spec["seed"] % (2**32))
        vmax = spec.get("vmax", 8)
        raw = rs.randint(-vmax, vmax + 1, size=total).astype(np.int64)
    raw = raw.reshape(shape)
    dt = spec["dtype"]
    if dt == "bool":
        return (raw % 3 == 0)
    if dt.startswith("float"):
        return (raw / float(spec.get("scale", 8))).astype(dt)
    if spec.get("big") and dt in NARROW:
        raw = raw * NARROW[dt]
    if dt.startswith("uint"):
        raw = np.abs(raw)
    return raw.astype(dt)


def lead_dims(spec):
    return LEAD_NAMES[: len(spec["lead"])]


def uxda(grid, spec, elem_dim, n_elem, name="v", with_coords=False):
    import uxarray as ux

    arr = materialise(spec, n_elem)
    dims = lead_dims(spec) + [elem_dim]
    coords = None
    if with_coords and spec["lead"]:
        coords = {dims[0]: np.arange(spec["lead"][0]) * 10.0}
    # the array handed to the library is its own copy: expectations are computed from `arr`, which no call can reach
    return ux.UxDataArray(stored(arr, spec.get("store", "C")), dims=dims, uxgrid=grid, name=name, coords=coords), arr


def stored(arr, store):
    """A private copy of `arr` in the requested storage (same values, same shape)."""
    if store == "F":
        return np.asfortranarray(arr.copy())
    if store == "T":
        return np.ascontiguousarray(arr.transpose()).transpose()
    if store == "dask":
        import dask.array as dsa

        return dsa.from_array(arr.copy(), chunks=tuple(max(1, (n + 1) // 2) for n in arr.shape))
    return arr.copy()


def modified(da, arr):
    """True when the variable an operation was called on no longer holds the values it was built from."""
    now = np.asarray(da.values)
    return now.shape != arr.shape or now.dtype != arr.dtype or not np.array_equal(now, arr, equal_nan=arr.dtype.kind in "fc")
