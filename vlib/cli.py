"""./check <PROPERTY> [--tier quick|thorough] [--replay FILE] [--shards N] [--examples N]"""

import argparse
import os
import sys


def main(argv=None):
    ap = argparse.ArgumentParser(prog="check")
    ap.add_argument("property")
    ap.add_argument("--tier", default=os.environ.get("VERIF_TIER", "quick"), choices=["quick", "thorough"])
    ap.add_argument("--replay")
    ap.add_argument("--shards", type=int)
    ap.add_argument("--examples", type=int)
    ap.add_argument("--seed", type=int)
    a = ap.parse_args(argv)
    try:
        seed = a.seed if a.seed is not None else int(os.environ.get("VERIF_SEED", "1") or 1)
    except ValueError:
        seed = 1
    from . import runner

    try:
        rc = runner.run_property(a.property, tier=a.tier, seed=seed, shards=a.shards, examples=a.examples, replay=a.replay)
    except Exception:  # harness bug: never a VIOLATION
        import traceback

        traceback.print_exc()
        rc = 2
    sys.stdout.flush()
    sys.exit(rc)


if __name__ == "__main__":
    main()
