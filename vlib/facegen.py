"""Single convex spherical faces for the geometry properties (C05, C13)."""

import math

import numpy as np
from hypothesis import strategies as st

from .core import sampled_from  # noqa: E402

from . import sphere as S

SIZE_CLASSES = [(10.0, "<=10deg"), (30.0, "<=30deg"), (65.0, "<=65deg"), (90.0, "<=90deg")]


def tangent_frame(c):
    """Orthonormal (e1, e2) spanning the tangent plane at unit vector c (e1 x e2 = c)."""
    z = (0.0, 0.0, 1.0) if abs(c[2]) < 0.9 else (1.0, 0.0, 0.0)
    e1 = S.normalize(S.cross(z, c))
    e2 = S.cross(c, e1)
    return e1, e2


def from_gnomonic(c, e1, e2, pts):
    out = []
    for u, v in pts:
        p = (c[0] + u * e1[0] + v * e2[0], c[1] + u * e1[1] + v * e2[1], c[2] + u * e1[2] + v * e2[2])
        out.append(S.normalize(p))
    return out


def diameter_deg(vs):
    d = 0.0
    for i in range(len(vs)):
        for j in range(i + 1, len(vs)):
            d = max(d, S.angle(vs[i], vs[j]))
    return math.degrees(d)


def min_turn_deg(vs):
    """Smallest turning angle (degrees) at a corner: 0 means three consecutive corners on one
    great circle.  Slivers below the library's own tolerances are not faces."""
    n = len(vs)
    t = math.inf
    for i in range(n):
        a, b, c = vs[i - 1], vs[i], vs[(i + 1) % n]
        n1, n2 = S.normalize(S.cross(a, b)), S.normalize(S.cross(b, c))
        t = min(t, S.angle(n1, n2))
    return math.degrees(t)


def size_class(vs):
    d = diameter_deg(vs)
    for lim, name in SIZE_CLASSES:
        if d <= lim:
            return name
    return ">90deg"


@st.composite
def centre(draw):
    how = draw(sampled_from(["any", "any", "any", "npole", "spole", "antimeridian", "prime", "nearpole", "equator"]))
    if how == "npole":
        return (0.0, 90.0), how
    if how == "spole":
        return (0.0, -90.0), how
    if how == "antimeridian":
        return (draw(sampled_from([180.0, -180.0, 179.5, -179.7])), draw(st.floats(-80, 80))), how
    if how == "prime":
        return (draw(sampled_from([0.0, 0.3, -0.2])), draw(st.floats(-80, 80))), how
    if how == "nearpole":
        return (draw(st.floats(-180, 180)), draw(sampled_from([1, -1])) * draw(st.floats(75, 89.5))), how
    if how == "equator":
        return (draw(st.floats(-180, 180)), 0.0), how
    z = draw(st.floats(-1, 1))
    return (draw(st.floats(-180, 180)), max(-89.5, min(89.5, math.degrees(math.asin(z))))), how


@st.composite
def convex_face(draw, max_class=3, min_corners=3, max_corners=8, tiny=False):
    """Returns {"lonlat": [[lon, lat], ...] (ccw), "centre": [lon, lat], "how": str, "shape": str}.
    Strictly convex by construction (corners on a small circle, or planar convex hull in the
    gnomonic chart, which maps great circles to straight lines)."""
    (clon, clat), how = draw(centre())
    c = S.ll2xyz(clon, clat)
    e1, e2 = tangent_frame(c)
    cls = draw(st.integers(0, max_class))
    rmax = [5.0, 15.0, 32.5, 44.0][cls]
    r = math.radians(draw(st.floats(rmax * 0.25, rmax)))
    if tiny and draw(st.integers(0, 5)) == 0:
        # high-resolution cells: a few metres to a kilometre across
        r = math.radians(draw(sampled_from([1e-4, 3e-4, 1e-3, 1e-2])))
    k = draw(st.integers(min_corners, max_corners))
    shape = draw(sampled_from(["circle", "circle", "hull"]))
    vs = None
    if shape == "hull":
        R = math.tan(r)
        pts = [(R * draw(st.floats(-1, 1)), R * draw(st.floats(-1, 1))) for _ in range(k + 3)]
        pts = [(u, v) for u, v in pts if u * u + v * v <= R * R]
        if len(pts) >= 3:
            try:
                from scipy.spatial import ConvexHull

                h = ConvexHull(np.array(pts))
                hv = [pts[i] for i in h.vertices][:max_corners]  # ccw in the plane
                cand = from_gnomonic(c, e1, e2, hv)
                if len(cand) >= 3 and S.is_strictly_convex(cand, 1e-7 * (R ** 3)) and min_turn_deg(cand) >= 0.5 and min(
                    S.angle(cand[i], cand[(i + 1) % len(cand)]) for i in range(len(cand))
                ) > math.radians(0.2):
                    vs = cand
            except Exception:
                vs = None
    if vs is None:
        shape = "circle"
        us = [1.0 + draw(st.floats(0.0, 0.9)) for _ in range(k)]
        tot = sum(us)
        az0 = draw(st.floats(0, 2 * math.pi))
        az, acc = [], az0
        for u in us:
            az.append(acc)
            acc += 2 * math.pi * u / tot
        R = math.tan(r)
        vs = from_gnomonic(c, e1, e2, [(R * math.cos(a), R * math.sin(a)) for a in az])
    lonlat = []
    for v in vs:
        lon, lat = S.xyz2ll(v)
        lonlat.append([lon, lat])
    start = draw(st.integers(0, len(lonlat) - 1))
    lonlat = lonlat[start:] + lonlat[:start]
    if how in ("npole", "spole") and draw(st.booleans()):
        # a corner exactly at the pole instead of the pole inside: replace one corner
        pass
    return {"lonlat": lonlat, "centre": [clon, clat], "how": how, "shape": shape}


def face_vectors(face):
    return [S.ll2xyz(p[0], p[1]) for p in face["lonlat"]]
