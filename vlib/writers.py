"""Writers: abstract mesh -> source datasets in each supported format, under a drawn
dialect.  These are *my own* encoders (the differential partner of the library's readers);
they never call uxarray."""

import math
import random

import numpy as np
import xarray as xr

from . import refmodel
from . import sphere as S


# ----------------------------------------------------------------------------- geometry helpers
def node_xyz(mesh):
    n = np.asarray(mesh["nodes"], float).reshape(-1, 2)
    return S.ll2xyz_np(n[:, 0], n[:, 1])


def face_centres_xyz(mesh):
    xyz = node_xyz(mesh)
    if mesh.get("centers"):
        c = np.asarray(mesh["centers"], float)
        return S.ll2xyz_np(c[:, 0], c[:, 1])
    out = []
    for f in mesh["faces"]:
        m = xyz[f].mean(axis=0)
        out.append(m / np.linalg.norm(m))
    return np.array(out)


def face_areas(mesh):
    xyz = node_xyz(mesh)
    return np.array([S.poly_area([tuple(xyz[i]) for i in f]) for f in mesh["faces"]])


def lonlat_of(xyz, lon360=False):
    xyz = np.asarray(xyz, float)
    lon = np.degrees(np.arctan2(xyz[:, 1], xyz[:, 0]))
    lat = np.degrees(np.arcsin(np.clip(xyz[:, 2] / np.linalg.norm(xyz, axis=1), -1, 1)))
    if lon360:
        lon = np.mod(lon, 360.0)
    return lon, lat


def numbered_edges(mesh, seed=0):
    """My own edge numbering: the reference edge set in an order shuffled by `seed`, each
    pair in a seed-dependent orientation."""
    es = sorted(refmodel.edge_set(mesh["faces"]))
    rnd = random.Random(seed)
    rnd.shuffle(es)
    es = [(a, b) if rnd.random() < 0.5 else (b, a) for a, b in es]
    return es


# ----------------------------------------------------------------------------- MPAS
def mpas_dataset(mesh, withhold=(), edge_perm_seed=0, padding="zeros", radius=1.0, edge_offset=0,
                 max_edges_extra=0, with_xyz=True, with_latlon=True, int_dtype="int32"):
    """MPAS primal+dual tables of a manifold mesh.  Returns (dataset, info)."""
    faces = mesh["faces"]
    nodes = mesh["nodes"]
    n_cell, n_vert = len(faces), len(nodes)
    xyz_v = node_xyz(mesh)
    xyz_c = face_centres_xyz(mesh)
    edges = numbered_edges(mesh, edge_perm_seed)
    eid = {refmodel.edge_key(a, b): k for k, (a, b) in enumerate(edges)}
    ef = refmodel.edge_faces(faces)
    n_edge = len(edges)
    max_edges = max(len(f) for f in faces) + max_edges_extra
    dt = np.dtype(int_dtype)

    def pad_row(vals, width):
        vals = list(vals)
        if padding == "zeros":
            return vals + [0] * (width - len(vals))
        if padding == "repeat-last":
            return vals + [vals[-1]] * (width - len(vals))
        if padding == "garbage":
            return vals + [((7 * i + 3) % max(1, len(vals))) + 1 for i in range(width - len(vals))]
        raise ValueError(padding)

    voc = np.array([pad_row([v + 1 for v in f], max_edges) for f in faces], dtype=dt)
    neoc = np.array([len(f) for f in faces], dtype=dt)
    eoc_rows, coc_rows = [], []
    for fi, f in enumerate(faces):
        n = len(f)
        er, cr = [], []
        for j in range(n):
            a, b = f[(j + edge_offset) % n], f[(j + 1 + edge_offset) % n]
            k = refmodel.edge_key(a, b)
            er.append(eid[k] + 1)
            other = [x for x in ef[k] if x != fi]
            cr.append(other[0] + 1 if other else 0)
        eoc_rows.append(pad_row(er, max_edges))
        # cellsOnCell: padding must not look like a real neighbour when padding by zeros
        coc_rows.append(cr + ([0] * (max_edges - n) if padding == "zeros" else pad_row(cr, max_edges)[n:]))
    eoc = np.array(eoc_rows, dtype=dt)
    coc = np.array(coc_rows, dtype=dt)
    voe = np.array([[a + 1, b + 1] for a, b in edges], dtype=dt)
    rnd = random.Random(edge_perm_seed + 1)
    coe_rows = []
    edge_cells = []
    for a, b in edges:
        fl = list(ef[refmodel.edge_key(a, b)])
        if len(fl) == 2 and rnd.random() < 0.5:
            fl.reverse()
        edge_cells.append(list(fl))
        coe_rows.append([fl[0] + 1, fl[1] + 1 if len(fl) > 1 else 0])
    coe = np.array(coe_rows, dtype=dt)
    # cellsOnVertex / edgesOnVertex: ring order (ccw)
    deg = max(len(s) for s in refmodel.node_faces(faces, n_vert).values())
    deg = max(deg, 3)
    cov_rows, eov_rows, rings = [], [], []
    for v in range(n_vert):
        ring, closed = refmodel.dual_ring(faces, v)
        inc = sorted(refmodel.node_faces(faces, n_vert)[v])
        if len(ring) != len(inc):
            ring = inc  # non-manifold fan at a pinched node: set semantics only
        rings.append((ring, closed))
        cov_rows.append([c + 1 for c in ring] + [0] * (deg - len(ring)))
        ev = sorted(k for k in eid if v in k)
        eov_rows.append([eid[k] + 1 for k in ev] + [0] * (deg + 1 - len(ev)) if len(ev) <= deg + 1 else [eid[k] + 1 for k in ev][: deg + 1])
    cov = np.array(cov_rows, dtype=dt)
    eov = np.array(eov_rows, dtype=dt)

    xyz_e = np.array([S.arc_midpoint(tuple(xyz_v[a]), tuple(xyz_v[b])) for a, b in edges])
    dv = np.array([S.angle(tuple(xyz_v[a]), tuple(xyz_v[b])) for a, b in edges]) * radius
    dc = np.array([S.angle(tuple(xyz_c[fl[0]]), tuple(xyz_c[fl[1]])) if len(fl) == 2 else 0.0 for fl in edge_cells]) * radius
    area_c = face_areas(mesh) * radius * radius
    area_t = []
    for v in range(n_vert):
        ring, closed = rings[v]
        if closed and len(ring) >= 3:
            area_t.append(abs(S.poly_area([tuple(xyz_c[c]) for c in ring])) * radius * radius)
        else:
            area_t.append(0.0)
    area_t = np.array(area_t)

    ds = xr.Dataset()

    def put(name, arr, dims):
        if name not in withhold:
            ds[name] = xr.DataArray(np.asarray(arr), dims=dims)

    put("verticesOnCell", voc, ("nCells", "maxEdges"))
    put("nEdgesOnCell", neoc, ("nCells",))
    put("edgesOnCell", eoc, ("nCells", "maxEdges"))
    put("cellsOnCell", coc, ("nCells", "maxEdges"))
    put("verticesOnEdge", voe, ("nEdges", "TWO"))
    put("cellsOnEdge", coe, ("nEdges", "TWO"))
    put("cellsOnVertex", cov, ("nVertices", "vertexDegree"))
    put("edgesOnVertex", eov, ("nVertices", "vertexDegreeP1"))
    for tag, xyz, dim in (("Cell", xyz_c, "nCells"), ("Vertex", xyz_v, "nVertices"), ("Edge", xyz_e, "nEdges")):
        if with_latlon:
            lon, lat = lonlat_of(xyz, lon360=True)
            put("lon" + tag, np.radians(lon), (dim,))
            put("lat" + tag, np.radians(lat), (dim,))
        if with_xyz:
            put("x" + tag, xyz[:, 0] * radius, (dim,))
            put("y" + tag, xyz[:, 1] * radius, (dim,))
            put("z" + tag, xyz[:, 2] * radius, (dim,))
    put("dvEdge", dv, ("nEdges",))
    put("dcEdge", dc, ("nEdges",))
    put("areaCell", area_c, ("nCells",))
    put("areaTriangle", area_t, ("nVertices",))
    ds.attrs.update({"sphere_radius": float(radius), "on_a_sphere": "YES", "mesh_spec": "1.0"})
    info = {
        "edge_nodes": [list(e) for e in edges],
        "edge_cells": edge_cells,
        "rings": [r for r, _ in rings],
        "rings_closed": [c for _, c in rings],
        "xyz_c": xyz_c,
        "xyz_v": xyz_v,
        "xyz_e": xyz_e,
        "dv": dv,
        "dc": dc,
        "area_c": area_c,
        "area_t": area_t,
        "radius": radius,
        "edge_offset": edge_offset,
    }
    return ds, info
