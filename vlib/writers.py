"""Writers: abstract mesh -> source datasets in each supported format, under a drawn
dialect.  These are *my own* encoders (the differential partner of the library's readers);
they never call uxarray."""

import math
import random

import numpy as np
import xarray as xr

from . import refmodel
from . import sphere as S


# ----------------------------------------------------------------------------- geometry helpers
def node_xyz(mesh):
    n = np.asarray(mesh["nodes"], float).reshape(-1, 2)
    return S.ll2xyz_np(n[:, 0], n[:, 1])


def face_centres_xyz(mesh):
    xyz = node_xyz(mesh)
    if mesh.get("centers"):
        c = np.asarray(mesh["centers"], float)
        return S.ll2xyz_np(c[:, 0], c[:, 1])
    out = []
    for f in mesh["faces"]:
        m = xyz[f].mean(axis=0)
        out.append(m / np.linalg.norm(m))
    return np.array(out)


def face_areas(mesh):
    xyz = node_xyz(mesh)
    return np.array([S.poly_area([tuple(xyz[i]) for i in f]) for f in mesh["faces"]])


def lonlat_of(xyz, lon360=False):
    xyz = np.asarray(xyz, float)
    lon = np.degrees(np.arctan2(xyz[:, 1], xyz[:, 0]))
    lat = np.degrees(np.arcsin(np.clip(xyz[:, 2] / np.linalg.norm(xyz, axis=1), -1, 1)))
    if lon360:
        lon = np.mod(lon, 360.0)
    return lon, lat


def numbered_edges(mesh, seed=0):
    """My own edge numbering: the reference edge set in an order shuffled by `seed`, each
    pair in a seed-dependent orientation."""
    es = sorted(refmodel.edge_set(mesh["faces"]))
    rnd = random.Random(seed)
    rnd.shuffle(es)
    es = [(a, b) if rnd.random() < 0.5 else (b, a) for a, b in es]
    return es


# ----------------------------------------------------------------------------- MPAS
def mpas_dataset(mesh, withhold=(), edge_perm_seed=0, padding="zeros", radius=1.0, edge_offset=0,
                 max_edges_extra=0, with_xyz=True, with_latlon=True, int_dtype="int32"):
    """MPAS primal+dual tables of a manifold mesh.  Returns (dataset, info)."""
    faces = mesh["faces"]
    nodes = mesh["nodes"]
    n_cell, n_vert = len(faces), len(nodes)
    xyz_v = node_xyz(mesh)
    xyz_c = face_centres_xyz(mesh)
    edges = numbered_edges(mesh, edge_perm_seed)
    eid = {refmodel.edge_key(a, b): k for k, (a, b) in enumerate(edges)}
    ef = refmodel.edge_faces(faces)
    n_edge = len(edges)
    max_edges = max(len(f) for f in faces) + max_edges_extra
    dt = np.dtype(int_dtype)

    def pad_row(vals, width):
        vals = list(vals)
        if padding == "zeros":
            return vals + [0] * (width - len(vals))
        if padding == "repeat-last":
            return vals + [vals[-1]] * (width - len(vals))
        if padding == "garbage":
            return vals + [((7 * i + 3) % max(1, len(vals))) + 1 for i in range(width - len(vals))]
        raise ValueError(padding)

    voc = np.array([pad_row([v + 1 for v in f], max_edges) for f in faces], dtype=dt)
    neoc = np.array([len(f) for f in faces], dtype=dt)
    eoc_rows, coc_rows = [], []
    for fi, f in enumerate(faces):
        n = len(f)
        er, cr = [], []
        for j in range(n):
            a, b = f[(j + edge_offset) % n], f[(j + 1 + edge_offset) % n]
            k = refmodel.edge_key(a, b)
            er.append(eid[k] + 1)
            other = [x for x in ef[k] if x != fi]
            cr.append(other[0] + 1 if other else 0)
        eoc_rows.append(pad_row(er, max_edges))
        # cellsOnCell: padding must not look like a real neighbour when padding by zeros
        coc_rows.append(cr + ([0] * (max_edges - n) if padding == "zeros" else pad_row(cr, max_edges)[n:]))
    eoc = np.array(eoc_rows, dtype=dt)
    coc = np.array(coc_rows, dtype=dt)
    voe = np.array([[a + 1, b + 1] for a, b in edges], dtype=dt)
    rnd = random.Random(edge_perm_seed + 1)
    coe_rows = []
    edge_cells = []
    for a, b in edges:
        fl = list(ef[refmodel.edge_key(a, b)])
        if len(fl) == 2 and rnd.random() < 0.5:
            fl.reverse()
        edge_cells.append(list(fl))
        coe_rows.append([fl[0] + 1, fl[1] + 1 if len(fl) > 1 else 0])
    coe = np.array(coe_rows, dtype=dt)
    # cellsOnVertex / edgesOnVertex: ring order (ccw)
    deg = max(len(s) for s in refmodel.node_faces(faces, n_vert).values())
    deg = max(deg, 3)
    cov_rows, eov_rows, rings = [], [], []
    for v in range(n_vert):
        ring, closed = refmodel.dual_ring(faces, v)
        inc = sorted(refmodel.node_faces(faces, n_vert)[v])
        if len(ring) != len(inc):
            ring = inc  # non-manifold fan at a pinched node: set semantics only
        rings.append((ring, closed))
        cov_rows.append([c + 1 for c in ring] + [0] * (deg - len(ring)))
        ev = sorted(k for k in eid if v in k)
        eov_rows.append([eid[k] + 1 for k in ev] + [0] * (deg + 1 - len(ev)) if len(ev) <= deg + 1 else [eid[k] + 1 for k in ev][: deg + 1])
    cov = np.array(cov_rows, dtype=dt)
    eov = np.array(eov_rows, dtype=dt)

    xyz_e = np.array([S.arc_midpoint(tuple(xyz_v[a]), tuple(xyz_v[b])) for a, b in edges])
    dv = np.array([S.angle(tuple(xyz_v[a]), tuple(xyz_v[b])) for a, b in edges]) * radius
    dc = np.array([S.angle(tuple(xyz_c[fl[0]]), tuple(xyz_c[fl[1]])) if len(fl) == 2 else 0.0 for fl in edge_cells]) * radius
    area_c = face_areas(mesh) * radius * radius
    area_t = []
    for v in range(n_vert):
        ring, closed = rings[v]
        if closed and len(ring) >= 3:
            area_t.append(abs(S.poly_area([tuple(xyz_c[c]) for c in ring])) * radius * radius)
        else:
            area_t.append(0.0)
    area_t = np.array(area_t)

    ds = xr.Dataset()

    def put(name, arr, dims):
        if name not in withhold:
            ds[name] = xr.DataArray(np.asarray(arr), dims=dims)

    put("verticesOnCell", voc, ("nCells", "maxEdges"))
    put("nEdgesOnCell", neoc, ("nCells",))
    put("edgesOnCell", eoc, ("nCells", "maxEdges"))
    put("cellsOnCell", coc, ("nCells", "maxEdges"))
    put("verticesOnEdge", voe, ("nEdges", "TWO"))
    put("cellsOnEdge", coe, ("nEdges", "TWO"))
    put("cellsOnVertex", cov, ("nVertices", "vertexDegree"))
    put("edgesOnVertex", eov, ("nVertices", "vertexDegreeP1"))
    for tag, xyz, dim in (("Cell", xyz_c, "nCells"), ("Vertex", xyz_v, "nVertices"), ("Edge", xyz_e, "nEdges")):
        if with_latlon:
            lon, lat = lonlat_of(xyz, lon360=True)
            put("lon" + tag, np.radians(lon), (dim,))
            put("lat" + tag, np.radians(lat), (dim,))
        if with_xyz:
            put("x" + tag, xyz[:, 0] * radius, (dim,))
            put("y" + tag, xyz[:, 1] * radius, (dim,))
            put("z" + tag, xyz[:, 2] * radius, (dim,))
    put("dvEdge", dv, ("nEdges",))
    put("dcEdge", dc, ("nEdges",))
    put("areaCell", area_c, ("nCells",))
    put("areaTriangle", area_t, ("nVertices",))
    ds.attrs.update({"sphere_radius": float(radius), "on_a_sphere": "YES", "mesh_spec": "1.0"})
    info = {
        "edge_nodes": [list(e) for e in edges],
        "edge_cells": edge_cells,
        "rings": [r for r, _ in rings],
        "rings_closed": [c for _, c in rings],
        "xyz_c": xyz_c,
        "xyz_v": xyz_v,
        "xyz_e": xyz_e,
        "dv": dv,
        "dc": dc,
        "area_c": area_c,
        "area_t": area_t,
        "radius": radius,
        "edge_offset": edge_offset,
    }
    return ds, info


# ----------------------------------------------------------------------------- shared helpers for C01/C07
def wrap_lon(lon, lon360):
    lon = np.asarray(lon, float)
    if lon360:
        return np.mod(lon, 360.0)
    return lon


def padded(rows, width, fill, dtype, start=0):
    """Rows of indices -> 2-D array padded at the end with `fill` (may be NaN), indices shifted by `start`."""
    dt = np.dtype(dtype)
    arr = np.full((len(rows), width), fill, dtype=dt)
    for i, r in enumerate(rows):
        arr[i, : len(r)] = [v + start for v in r]
    return arr


def to_disk(ds, path):
    """Write an in-memory source dataset to NetCDF the way such files are stored: a declared
    _FillValue lives in the variable's encoding (so xarray's decoding turns it into NaN on read)."""
    ds = ds.copy()
    enc = {}
    for name in list(ds.variables):
        v = ds[name]
        if "_FillValue" in v.attrs:
            attrs = dict(v.attrs)
            fv = attrs.pop("_FillValue")
            ds[name] = xr.DataArray(v.values, dims=v.dims, attrs=attrs)
            enc[name] = {"_FillValue": fv}
        else:
            enc[name] = {"_FillValue": None}
    ds.to_netcdf(path, encoding=enc)
    return path


# ----------------------------------------------------------------------------- UGRID
def ugrid_dataset(mesh, d):
    """d: dialect dict with keys start_index (None/0/1), fill (None/int/'nan'), dtype, names (int), lon360,
    face_coords (bool), extras (list of connectivity names), edge_seed, dim_attrs (bool)."""
    faces, nodes = mesh["faces"], np.asarray(mesh["nodes"], float)
    n_face, n_node = len(faces), len(nodes)
    nm = d.get("names", 0)
    P = ["", "Mesh2_", "m_"][nm % 3]
    vn = {
        "topo": P + ["grid_topology", "Mesh2", "mesh"][nm % 3],
        "lon": P + ["node_lon", "node_x", "x"][nm % 3],
        "lat": P + ["node_lat", "node_y", "y"][nm % 3],
        "fn": P + ["face_node_connectivity", "face_nodes", "fn"][nm % 3],
        "flon": P + ["face_lon", "face_x", "fx"][nm % 3],
        "flat": P + ["face_lat", "face_y", "fy"][nm % 3],
        "en": P + "edge_nodes",
        "fe": P + "face_edges",
        "ef": P + "edge_faces",
        "ff": P + "face_links",
        "dn": ["n_node", "nMesh2_node", "nn"][nm % 3],
        "df": ["n_face", "nMesh2_face", "nf"][nm % 3],
        "de": ["n_edge", "nMesh2_edge", "ne"][nm % 3],
        "dm": ["n_max_face_nodes", "nMaxMesh2_face_nodes", "nmax"][nm % 3],
    }
    start = d.get("start_index")
    s0 = 0 if start is None else start
    width = max(len(f) for f in faces) + d.get("extra_cols", 0)
    mixed = any(len(f) != width for f in faces)
    fill = d.get("fill")
    dtype = d.get("dtype", "int64")
    if fill == "nan":
        dtype = "float64"
    if mixed and fill is None:
        fill = -1
    fv = np.nan if fill == "nan" else fill

    def conn_var(rows, w, dims, cf_role):
        arr = padded(rows, w, 0 if fv is None else fv, dtype, s0)
        attrs = {"cf_role": cf_role}
        if start is not None:
            attrs["start_index"] = np.dtype("int32").type(start)
        if fv is not None:
            attrs["_FillValue"] = np.dtype(dtype).type(fv)
        return xr.DataArray(arr, dims=dims, attrs=attrs)

    ds = xr.Dataset()
    lon = wrap_lon(nodes[:, 0], d.get("lon360", False))
    ds[vn["lon"]] = xr.DataArray(lon, dims=[vn["dn"]], attrs={"standard_name": "longitude", "units": "degrees_east"})
    ds[vn["lat"]] = xr.DataArray(nodes[:, 1].copy(), dims=[vn["dn"]], attrs={"standard_name": "latitude", "units": "degrees_north"})
    ds[vn["fn"]] = conn_var(faces, width, [vn["df"], vn["dm"]], "face_node_connectivity")
    topo = {
        "cf_role": "mesh_topology",
        "topology_dimension": np.int32(2),
        "node_coordinates": f"{vn['lon']} {vn['lat']}",
        "face_node_connectivity": vn["fn"],
    }
    if d.get("dim_attrs"):
        topo["node_dimension"] = vn["dn"]
        topo["face_dimension"] = vn["df"]
    info = {}
    if d.get("face_coords"):
        c = face_centres_xyz(mesh)
        flon, flat = lonlat_of(c, d.get("centres_lon360", d.get("lon360", False)))
        ds[vn["flon"]] = xr.DataArray(flon, dims=[vn["df"]], attrs={"units": "degrees_east"})
        ds[vn["flat"]] = xr.DataArray(flat, dims=[vn["df"]], attrs={"units": "degrees_north"})
        topo["face_coordinates"] = f"{vn['flon']} {vn['flat']}"
        info["xyz_c"] = c
    extras = d.get("extras", [])
    if extras:
        edges = numbered_edges(mesh, d.get("edge_seed", 0))
        eid = {refmodel.edge_key(a, b): k for k, (a, b) in enumerate(edges)}
        ef = refmodel.edge_faces(faces)
        info["edge_nodes"] = [list(e) for e in edges]
        if "edge_node_connectivity" in extras:
            ds[vn["en"]] = conn_var([list(e) for e in edges], 2, [vn["de"], "Two"], "edge_node_connectivity")
            topo["edge_node_connectivity"] = vn["en"]
            if d.get("dim_attrs"):
                topo["edge_dimension"] = vn["de"]
            if "face_edge_connectivity" in extras:
                rows = [[eid[refmodel.edge_key(f[j], f[(j + 1) % len(f)])] for j in range(len(f))] for f in faces]
                ds[vn["fe"]] = conn_var(rows, width, [vn["df"], vn["dm"]], "face_edge_connectivity")
                topo["face_edge_connectivity"] = vn["fe"]
                info["face_edges"] = rows
            if "edge_face_connectivity" in extras and (fv is not None or all(len(ef[refmodel.edge_key(a, b)]) == 2 for a, b in edges)):
                rows = [list(ef[refmodel.edge_key(a, b)]) for a, b in edges]
                ds[vn["ef"]] = conn_var(rows, 2, [vn["de"], "Two"], "edge_face_connectivity")
                topo["edge_face_connectivity"] = vn["ef"]
                info["edge_faces"] = rows
    ds[vn["topo"]] = xr.DataArray(np.int32(0), attrs=topo)
    info["names"] = vn
    return ds, info


# ----------------------------------------------------------------------------- SCRIP
def scrip_dataset(mesh, d):
    faces, nodes = mesh["faces"], np.asarray(mesh["nodes"], float)
    width = max(len(f) for f in faces)
    lon = wrap_lon(nodes[:, 0], d.get("lon360", False))
    clon = np.zeros((len(faces), width))
    clat = np.zeros((len(faces), width))
    for i, f in enumerate(faces):
        idx = list(f) + [f[-1]] * (width - len(f))  # SCRIP pads by repeating the last corner
        clon[i] = lon[idx]
        clat[i] = nodes[idx, 1]
    c = face_centres_xyz(mesh)
    flon, flat = lonlat_of(c, d.get("centres_lon360", d.get("lon360", False)))
    ds = xr.Dataset()
    gs, gc = d.get("dims", ("grid_size", "grid_corners"))
    ds["grid_corner_lat"] = xr.DataArray(clat, dims=[gs, gc], attrs={"units": "degrees"})
    ds["grid_corner_lon"] = xr.DataArray(clon, dims=[gs, gc], attrs={"units": "degrees"})
    ds["grid_center_lat"] = xr.DataArray(flat, dims=[gs], attrs={"units": "degrees"})
    ds["grid_center_lon"] = xr.DataArray(flon, dims=[gs], attrs={"units": "degrees"})
    ds["grid_area"] = xr.DataArray(face_areas(mesh), dims=[gs], attrs={"units": "radians^2"})
    ds["grid_imask"] = xr.DataArray(np.ones(len(faces), dtype="int32"), dims=[gs])
    ds["grid_dims"] = xr.DataArray(np.array([len(faces)], dtype="int32"), dims=["grid_rank"])
    return ds, {"xyz_c": c, "areas": face_areas(mesh)}


# ----------------------------------------------------------------------------- Exodus
def exodus_dataset(mesh, d):
    """d: coord ('coord' | 'xyz'), blocks ('one' | 'by-size'), dtype, radius."""
    faces = mesh["faces"]
    xyz = node_xyz(mesh) * d.get("radius", 1.0)
    dt = np.dtype(d.get("dtype", "int32"))
    ds = xr.Dataset()
    if d.get("coord", "coord") == "coord":
        ds["coord"] = xr.DataArray(xyz.T.copy(), dims=["num_dim", "num_nodes"])
    else:
        for k, nme in enumerate(("coordx", "coordy", "coordz")):
            ds[nme] = xr.DataArray(xyz[:, k].copy(), dims=["num_nodes"])
        ds["coor_names"] = xr.DataArray(np.array(["x", "y", "z"]), dims=["num_dim"])
    order = []
    if d.get("blocks", "one") == "one":
        width = max(len(f) for f in faces)
        arr = np.zeros((len(faces), width), dtype=dt)
        for i, f in enumerate(faces):
            arr[i, : len(f)] = [v + 1 for v in f]
        ds["connect1"] = xr.DataArray(arr, dims=["num_el_in_blk1", "num_nod_per_el1"], attrs={"elem_type": "SHELL"})
        order = list(range(len(faces)))
    elif str(d.get("blocks")).startswith("runs"):
        # one block per run of consecutive faces of one size, runs cut into chunks of at most k elements ("runs-k"):
        # many blocks (one per region / material), element order = face order
        k = int(str(d["blocks"]).split("-")[1])
        b = 0
        i = 0
        while i < len(faces):
            j = i
            while j < len(faces) and len(faces[j]) == len(faces[i]) and j - i < k:
                j += 1
            b += 1
            arr = np.array([[v + 1 for v in faces[t]] for t in range(i, j)], dtype=dt).reshape(j - i, len(faces[i]))
            ds[f"connect{b}"] = xr.DataArray(arr, dims=[f"num_el_in_blk{b}", f"num_nod_per_el{b}"], attrs={"elem_type": "SHELL"})
            i = j
        order = list(range(len(faces)))
    else:
        sizes = sorted({len(f) for f in faces})
        if d.get("blocks") == "by-size-desc":
            sizes = sizes[::-1]
        for b, s in enumerate(sizes, start=1):
            ids = [i for i, f in enumerate(faces) if len(f) == s]
            arr = np.array([[v + 1 for v in faces[i]] for i in ids], dtype=dt).reshape(len(ids), s)
            ds[f"connect{b}"] = xr.DataArray(arr, dims=[f"num_el_in_blk{b}", f"num_nod_per_el{b}"], attrs={"elem_type": "SHELL"})
            order += ids
    return ds, {"face_order": order}


# ----------------------------------------------------------------------------- ESMF
def esmf_dataset(mesh, d):
    faces, nodes = mesh["faces"], np.asarray(mesh["nodes"], float)
    width = max(len(f) for f in faces) + d.get("extra_cols", 0)
    start = d.get("start_index")  # None -> attribute absent -> 1-based
    s0 = 1 if start is None else start
    pad = d.get("pad", -1)
    dt = np.dtype(d.get("dtype", "int32"))
    arr = np.full((len(faces), width), pad, dtype=dt)
    for i, f in enumerate(faces):
        arr[i, : len(f)] = [v + s0 for v in f]
    lon = wrap_lon(nodes[:, 0], d.get("lon360", True))
    ds = xr.Dataset()
    ds["nodeCoords"] = xr.DataArray(np.stack([lon, nodes[:, 1]], axis=1), dims=["nodeCount", "coordDim"], attrs={"units": "degrees"})
    attrs = {"long_name": "Node indices that define the element connectivity"}
    if start is not None:
        attrs["start_index"] = np.int32(start)
    ds["elementConn"] = xr.DataArray(arr, dims=["elementCount", "maxNodePElement"], attrs=attrs)
    ds["numElementConn"] = xr.DataArray(np.array([len(f) for f in faces], dtype="int8" if d.get("byte_counts") else "int32"), dims=["elementCount"])
    info = {}
    if d.get("centers", True):
        c = face_centres_xyz(mesh)
        flon, flat = lonlat_of(c, d.get("centres_lon360", d.get("lon360", True)))
        ds["centerCoords"] = xr.DataArray(np.stack([flon, flat], axis=1), dims=["elementCount", "coordDim"], attrs={"units": "degrees"})
        info["xyz_c"] = c
    return ds, info


# ----------------------------------------------------------------------------- GEOS-CS
def geos_dataset(n, d):
    """Cubed sphere with n x n cells per panel as GEOS corner arrays.  Returns (ds, expected faces as lon/lat lists, centres)."""
    ang = [math.tan(-math.pi / 4 + (math.pi / 2) * i / n) for i in range(n + 1)]
    panels = [
        ((1, 0, 0), (0, 1, 0), (0, 0, 1)),
        ((0, 1, 0), (-1, 0, 0), (0, 0, 1)),
        ((-1, 0, 0), (0, -1, 0), (0, 0, 1)),
        ((0, -1, 0), (1, 0, 0), (0, 0, 1)),
        ((0, 0, 1), (0, 1, 0), (-1, 0, 0)),
        ((0, 0, -1), (0, 1, 0), (1, 0, 0)),
    ]
    clon = np.zeros((6, n + 1, n + 1))
    clat = np.zeros((6, n + 1, n + 1))
    P = np.zeros((6, n + 1, n + 1, 3))
    for f, (o, u, v) in enumerate(panels):
        for i in range(n + 1):
            for j in range(n + 1):
                p = S.normalize(tuple(o[k] + ang[j] * u[k] + ang[i] * v[k] for k in range(3)))
                P[f, i, j] = p
                lo, la = S.xyz2ll(p)
                clon[f, i, j] = lo % 360.0 if d.get("lon360", True) else lo
                clat[f, i, j] = la
    faces, centres = [], []
    for f in range(6):
        for i in range(n):
            for j in range(n):
                cs = [P[f, i + 1, j + 1], P[f, i + 1, j], P[f, i, j], P[f, i, j + 1]]
                faces.append([tuple(c) for c in cs])
                m = np.mean(cs, axis=0)
                centres.append(tuple(m / np.linalg.norm(m)))
    ds = xr.Dataset()
    ds["corner_lons"] = xr.DataArray(clon, dims=["nf", "YCdim", "XCdim"])
    ds["corner_lats"] = xr.DataArray(clat, dims=["nf", "YCdim", "XCdim"])
    info = {}
    if d.get("centers", True):
        c = np.array(centres)
        lo, la = lonlat_of(c, d.get("lon360", True))
        ds["lons"] = xr.DataArray(lo.reshape(6, n, n), dims=["nf", "Ydim", "Xdim"])
        ds["lats"] = xr.DataArray(la.reshape(6, n, n), dims=["nf", "Ydim", "Xdim"])
        info["xyz_c"] = c
    return ds, faces, info


# ----------------------------------------------------------------------------- ICON (triangulations)
def icon_dataset(mesh, d):
    faces, nodes = mesh["faces"], np.asarray(mesh["nodes"], float)
    assert all(len(f) == 3 for f in faces)
    dt = np.dtype(d.get("dtype", "int32"))
    edges = numbered_edges(mesh, d.get("edge_seed", 0))
    eid = {refmodel.edge_key(a, b): k for k, (a, b) in enumerate(edges)}
    ef = refmodel.edge_faces(faces)
    xyz = node_xyz(mesh)
    c = face_centres_xyz(mesh)
    e_xyz = np.array([S.arc_midpoint(tuple(xyz[a]), tuple(xyz[b])) for a, b in edges])
    ds = xr.Dataset()
    ds["vlon"] = xr.DataArray(np.radians(nodes[:, 0]), dims=["vertex"])
    ds["vlat"] = xr.DataArray(np.radians(nodes[:, 1]), dims=["vertex"])
    clo, cla = lonlat_of(c)
    elo, ela = lonlat_of(e_xyz)
    ds["clon"] = xr.DataArray(np.radians(clo), dims=["cell"])
    ds["clat"] = xr.DataArray(np.radians(cla), dims=["cell"])
    ds["elon"] = xr.DataArray(np.radians(elo), dims=["edge"])
    ds["elat"] = xr.DataArray(np.radians(ela), dims=["edge"])
    ds["vertex_of_cell"] = xr.DataArray(np.array(faces, dtype=dt).T + dt.type(1), dims=["nv", "cell"])
    fe = [[eid[refmodel.edge_key(f[j], f[(j + 1) % 3])] for j in range(3)] for f in faces]
    ds["edge_of_cell"] = xr.DataArray(np.array(fe, dtype=dt).T + dt.type(1), dims=["nv", "cell"])
    nb = []
    for fi, f in enumerate(faces):
        row = []
        for j in range(3):
            other = [x for x in ef[refmodel.edge_key(f[j], f[(j + 1) % 3])] if x != fi]
            row.append(other[0] if other else -1)
        nb.append(row)
    ds["neighbor_cell_index"] = xr.DataArray(np.array(nb, dtype=dt).T + dt.type(1), dims=["nv", "cell"])
    ec = [list(ef[refmodel.edge_key(a, b)]) for a, b in edges]
    ds["adjacent_cell_of_edge"] = xr.DataArray(np.array(ec, dtype=dt).T + dt.type(1), dims=["nc", "edge"])
    ds["edge_vertices"] = xr.DataArray(np.array([list(e) for e in edges], dtype=dt).T + dt.type(1), dims=["nc", "edge"])
    return ds, {"edge_nodes": [list(e) for e in edges], "face_edges": fe, "edge_faces": ec, "neighbours": nb, "xyz_c": c, "xyz_e": e_xyz}
