"""Hypothesis strategies for abstract meshes.

An abstract mesh is a JSON-able dict
    {"nodes": [[lon_deg, lat_deg], ...], "faces": [[i0, i1, ...], ...], "family": str}
with faces counter-clockwise seen from outside.  Nothing here imports uxarray.
"""

import math

import numpy as np
from hypothesis import strategies as st

from .core import sampled_from  # noqa: E402
from scipy.spatial import ConvexHull

from . import sphere as S

AXIS_POINTS = [(0.0, 90.0), (0.0, -90.0), (0.0, 0.0), (90.0, 0.0), (180.0, 0.0), (-90.0, 0.0)]
MIN_SEP_DEG = 0.5


# ----------------------------------------------------------------------------- helpers
def mesh_xyz(mesh):
    n = np.asarray(mesh["nodes"], float).reshape(-1, 2)
    return S.ll2xyz_np(n[:, 0], n[:, 1])


def face_sizes(mesh):
    return [len(f) for f in mesh["faces"]]


def _dedup(points):
    """Drop points closer than MIN_SEP_DEG to an earlier one (construction, not rejection)."""
    out, vecs = [], []
    lim = math.radians(MIN_SEP_DEG)
    for lon, lat in points:
        v = S.ll2xyz(lon, lat)
        if all(S.angle(v, w) >= lim for w in vecs):
            out.append((lon, lat))
            vecs.append(v)
    return out


def hull_triangulation(points):
    """points: list of (lon, lat).  Returns (points, triangles) tiling the whole sphere;
    axis points are added when the origin is not strictly inside the hull."""
    pts = _dedup(points)
    for attempt in range(2):
        if len(pts) >= 4:
            xyz = S.ll2xyz_np([p[0] for p in pts], [p[1] for p in pts])
            try:
                hull = ConvexHull(xyz)
                if np.all(hull.equations[:, 3] < -1e-3) and len(hull.vertices) == len(pts):
                    tris = []
                    for s, eq in zip(hull.simplices, hull.equations):
                        a, b, c = (int(i) for i in s)
                        if np.dot(np.cross(xyz[b] - xyz[a], xyz[c] - xyz[a]), eq[:3]) < 0:
                            b, c = c, b
                        tris.append([a, b, c])
                    return pts, tris
            except Exception:
                pass
        pts = _dedup(list(pts) + AXIS_POINTS)
    # axis points alone always work (octahedron)
    return hull_triangulation(AXIS_POINTS)


def edges_of(faces):
    """dict: frozenset({a,b}) -> list of (face, position)."""
    d = {}
    for fi, f in enumerate(faces):
        n = len(f)
        for j in range(n):
            d.setdefault(frozenset((f[j], f[(j + 1) % n])), []).append((fi, j))
    return d


def _try_merge(faces, fa, fb, xyz, max_size, convex_eps):
    A, B = faces[fa], faces[fb]
    shared = set(A) & set(B)
    if len(shared) != 2:
        return None
    na, nb = len(A), len(B)
    if na + nb - 2 > max_size:
        return None
    # find edge (u, v) directed in A; it is (v, u) in B
    for j in range(na):
        u, v = A[j], A[(j + 1) % na]
        if u in shared and v in shared:
            break
    else:
        return None
    try:
        kb = B.index(v)
    except ValueError:
        return None
    if B[(kb + 1) % nb] != u:
        return None
    # A rotated to start after v: v ... u ; B from u ... v
    ra = [A[(j + 1 + i) % na] for i in range(na)]  # starts with v, ends with u
    rb = [B[(kb + 1 + i) % nb] for i in range(nb)]  # starts with u, ends with v
    merged = ra[:-1] + rb[:-1]  # v ... (before u), u ... (before v)
    if len(set(merged)) != len(merged):
        return None
    vs = [tuple(xyz[i]) for i in merged]
    if not S.is_strictly_convex(vs, convex_eps):
        return None
    return merged


@st.composite
def points_on_sphere(draw, min_pts, max_pts, planted=True):
    n = draw(st.integers(min_pts, max_pts))
    pts = []
    special = draw(st.integers(0, 7)) if planted else 0
    if special & 1:
        pts.append((0.0, 90.0))
    if special & 2:
        pts.append((0.0, -90.0))
    if special & 4:
        # nodes exactly on the antimeridian / prime meridian / equator
        k = draw(st.integers(1, 3))
        for _ in range(k):
            which = draw(sampled_from(["am+", "am-", "pm", "eq"]))
            t = draw(st.floats(-80.0, 80.0, allow_nan=False))
            if which == "am+":
                pts.append((180.0, t))
            elif which == "am-":
                pts.append((-180.0, t))
            elif which == "pm":
                pts.append((0.0, t))
            else:
                pts.append((draw(st.floats(-180.0, 180.0, allow_nan=False)), 0.0))
    for _ in range(n):
        z = draw(st.floats(-1.0, 1.0, allow_nan=False))
        lat = math.degrees(math.asin(z))
        lat = max(-89.5, min(89.5, lat))
        lon = draw(st.floats(-180.0, 180.0, allow_nan=False, exclude_min=True))
        pts.append((lon, lat))
    return pts


@st.composite
def hull_mesh(draw, min_pts=4, max_pts=24, partial=True, merge=True, renumber=True, planted=True,
              max_face_size=8, convex_eps=1e-6):
    pts = draw(points_on_sphere(min_pts, max_pts, planted))
    pts, faces = hull_triangulation(pts)
    xyz = S.ll2xyz_np([p[0] for p in pts], [p[1] for p in pts])
    family = "hull"

    # ---- merge triangles into larger strictly convex polygons
    if merge:
        mode = draw(sampled_from(["none", "few", "many", "grow"]))
        if mode != "none":
            budget = {"few": max(1, len(faces) // 6), "many": len(faces), "grow": len(faces)}[mode]
            faces = [list(f) for f in faces]
            alive = [True] * len(faces)
            for _ in range(budget):
                ed = edges_of([f if a else [] for f, a in zip(faces, alive)])
                cands = sorted((tuple(sorted(k)), v) for k, v in ed.items() if len(v) == 2)
                if not cands:
                    break
                if mode == "grow":
                    cands.sort(key=lambda kv: -max(len(faces[kv[1][0][0]]), len(faces[kv[1][1][0]])))
                    top = max(1, len(cands) // 4)
                    idx = draw(st.integers(0, top - 1))
                else:
                    idx = draw(st.integers(0, len(cands) - 1))
                (_, ((fa, _), (fb, _))) = cands[idx]
                m = _try_merge(faces, fa, fb, xyz, max_face_size, convex_eps)
                if m is not None:
                    faces[fa] = m
                    alive[fb] = False
            faces = [f for f, a in zip(faces, alive) if a]
            family = "hull-merged"

    # ---- delete faces -> partial grids with holes / isolated faces
    if partial and len(faces) > 1:
        how = draw(sampled_from(["global", "global", "holes", "patch", "sparse"]))
        nf = len(faces)
        if how == "holes":
            drop = draw(st.sets(st.integers(0, nf - 1), min_size=1, max_size=max(1, nf // 4)))
            keep = [i for i in range(nf) if i not in drop]
        elif how == "patch":
            # faces whose first corner lies within a cap around a drawn face
            c = draw(st.integers(0, nf - 1))
            rad = draw(st.floats(0.3, 1.6))
            cv = S.normalize(tuple(np.mean(xyz[faces[c]], axis=0)))
            keep = [i for i, f in enumerate(faces) if S.angle(cv, S.normalize(tuple(np.mean(xyz[f], axis=0)))) <= rad]
        elif how == "sparse":
            ks = draw(st.sets(st.integers(0, nf - 1), min_size=1, max_size=max(1, min(nf, 6))))
            keep = sorted(ks)
        else:
            keep = list(range(nf))
        if not keep:
            keep = [0]
        if len(keep) < nf:
            family += "-partial"
        faces = [faces[i] for i in keep]

    mesh = finish_mesh(draw, pts, faces, renumber)
    mesh["family"] = family
    return mesh


def finish_mesh(draw, pts, faces, renumber=True):
    """Compact unused nodes; optionally permute node numbers, face order, starting corners."""
    used = sorted({i for f in faces for i in f})
    remap = {old: new for new, old in enumerate(used)}
    pts = [pts[i] for i in used]
    faces = [[remap[i] for i in f] for f in faces]
    if renumber:
        if draw(st.booleans()):
            perm = draw(st.permutations(list(range(len(pts)))))
            # perm[new] = old
            inv = {old: new for new, old in enumerate(perm)}
            pts = [pts[old] for old in perm]
            faces = [[inv[i] for i in f] for f in faces]
        if draw(st.booleans()) and len(faces) > 1:
            fperm = draw(st.permutations(list(range(len(faces)))))
            faces = [faces[i] for i in fperm]
        if draw(st.booleans()):
            rots = draw(st.lists(st.integers(0, 7), min_size=len(faces), max_size=len(faces)))
            faces = [f[r % len(f):] + f[: r % len(f)] for f, r in zip(faces, rots)]
    out = {"nodes": [[float(a), float(b)] for a, b in pts], "faces": [[int(i) for i in f] for f in faces]}
    if renumber and draw(st.integers(0, 4)) == 0:
        # memory layout in which build.grid_from_mesh hands the arrays to the library (Fortran order, transposed view,
        # strided view): the same table, the same mesh
        out["layout"] = draw(sampled_from(["F", "T", "strided"]))
    return out


# ----------------------------------------------------------------------------- Voronoi (MPAS-like)
def voronoi_from_points(points):
    """Returns dict with primal (Voronoi cells) and dual (Delaunay triangles) views:
    cells: list of (lon, lat) generators; vertices: circumcentres; verticesOnCell (ccw);
    cellsOnVertex (the triangle, ccw).  None if degenerate."""
    pts, tris = hull_triangulation(points)
    xyz = S.ll2xyz_np([p[0] for p in pts], [p[1] for p in pts])
    cc = []
    for a, b, c in tris:
        n = np.cross(xyz[b] - xyz[a], xyz[c] - xyz[a])
        n = n / np.linalg.norm(n)
        cc.append(n)
    cc = np.array(cc)
    # ring of triangles around each point, ccw
    around = {i: [] for i in range(len(pts))}
    for ti, t in enumerate(tris):
        for v in t:
            around[v].append(ti)
    rings = []
    for i in range(len(pts)):
        ts = around[i]
        # order: triangle (i, b, c) ccw -> next triangle is the one containing edge (i, c)
        nxt = {}
        for ti in ts:
            t = tris[ti]
            k = t.index(i)
            b, c = t[(k + 1) % 3], t[(k + 2) % 3]
            nxt[b] = (ti, c)
        start = min(nxt)
        ring, cur = [], start
        for _ in range(len(ts)):
            if cur not in nxt:
                return None
            ti, c = nxt[cur]
            ring.append(ti)
            cur = c
        if cur != start or len(set(ring)) != len(ts):
            return None
        rings.append(ring)
    # degeneracy: adjacent circumcentres must be distinct
    for ring in rings:
        for k in range(len(ring)):
            if S.angle(tuple(cc[ring[k]]), tuple(cc[ring[(k + 1) % len(ring)]])) < math.radians(0.05):
                return None
    verts = [S.xyz2ll(tuple(c)) for c in cc]
    for lon, lat in verts:
        if abs(lat) > 89.5 and abs(lat) < 90 - 1e-9:
            return None
    return {"cells": pts, "tris": tris, "verts": verts, "rings": rings}


@st.composite
def voronoi_mesh(draw, min_pts=6, max_pts=20, max_ring=8, renumber=False):
    for _ in range(3):
        pts = draw(points_on_sphere(min_pts, max_pts, planted=True))
        v = voronoi_from_points(pts)
        if v is not None and max(len(r) for r in v["rings"]) <= max_ring:
            break
    else:
        v = voronoi_from_points(AXIS_POINTS)
    mesh = {"nodes": [[float(a), float(b)] for a, b in v["verts"]], "faces": [list(map(int, r)) for r in v["rings"]]}
    if renumber:
        mesh = finish_mesh(draw, [tuple(p) for p in mesh["nodes"]], mesh["faces"], True)
    mesh["family"] = "voronoi"
    mesh["centers"] = [[float(a), float(b)] for a, b in v["cells"]] if not renumber else None
    return mesh


# ----------------------------------------------------------------------------- structured families
def latlon_mesh(nlon, nlat, lon0=0.0, poles=True):
    """Regular lat-lon grid; rows of quads between latitude circles, triangle fans at poles."""
    lats = [-90.0 + 180.0 * (j + 1) / (nlat + 1) for j in range(nlat)]
    lons = []
    for i in range(nlon):
        lo = lon0 + 360.0 * i / nlon
        lo = ((lo + 180.0) % 360.0) - 180.0
        lons.append(lo)
    nodes, idx = [], {}
    for j, la in enumerate(lats):
        for i, lo in enumerate(lons):
            idx[(i, j)] = len(nodes)
            nodes.append([lo, la])
    faces = []
    for j in range(nlat - 1):
        for i in range(nlon):
            i2 = (i + 1) % nlon
            faces.append([idx[(i, j)], idx[(i2, j)], idx[(i2, j + 1)], idx[(i, j + 1)]])
    if poles:
        sp, npole = len(nodes), len(nodes) + 1
        nodes += [[0.0, -90.0], [0.0, 90.0]]
        for i in range(nlon):
            i2 = (i + 1) % nlon
            faces.append([sp, idx[(i2, 0)], idx[(i, 0)]])
            faces.append([npole, idx[(i, nlat - 1)], idx[(i2, nlat - 1)]])
    return {"nodes": nodes, "faces": faces, "family": "latlon"}


@st.composite
def latlon_mesh_st(draw, renumber=True):
    nlon = draw(st.integers(3, 9))
    nlat = draw(st.integers(2, 6))
    lon0 = draw(sampled_from([0.0, 180.0, -180.0, 7.5, 33.0]) | st.floats(-180, 180, allow_nan=False))
    poles = draw(st.booleans())
    m = latlon_mesh(nlon, nlat, lon0, poles)
    if renumber:
        fam = m["family"]
        m = finish_mesh(draw, [tuple(p) for p in m["nodes"]], m["faces"], True)
        m["family"] = fam
    m["family"] += "-poles" if poles else "-band"
    return m


def cubed_sphere(n):
    """Equiangular cubed sphere with n x n quads per panel; returns mesh with shared nodes."""
    faces_def = [
        # (origin, u, v) of each cube face such that u x v points outward
        ((1, 0, 0), (0, 1, 0), (0, 0, 1)),
        ((0, 1, 0), (-1, 0, 0), (0, 0, 1)),
        ((-1, 0, 0), (0, -1, 0), (0, 0, 1)),
        ((0, -1, 0), (1, 0, 0), (0, 0, 1)),
        ((0, 0, 1), (0, 1, 0), (-1, 0, 0)),
        ((0, 0, -1), (0, 1, 0), (1, 0, 0)),
    ]
    nodes, key2idx, faces = [], {}, []

    def node(p):
        v = S.normalize(p)
        key = tuple(round(c, 9) for c in v)
        if key not in key2idx:
            key2idx[key] = len(nodes)
            lon, lat = S.xyz2ll(v)
            nodes.append([lon, lat])
        return key2idx[key]

    ang = [math.tan(-math.pi / 4 + (math.pi / 2) * i / n) for i in range(n + 1)]
    for o, u, v in faces_def:
        for j in range(n):
            for i in range(n):
                cs = []
                for (a, b) in ((i, j), (i + 1, j), (i + 1, j + 1), (i, j + 1)):
                    p = tuple(o[k] + ang[a] * u[k] + ang[b] * v[k] for k in range(3))
                    cs.append(node(p))
                faces.append(cs)
    return {"nodes": nodes, "faces": faces, "family": "cubed-sphere"}


def pyramid(n, lat_base=0.0, lon0=10.0):
    """n-gon base (one face, seen from below) plus n triangles to the north pole: closed,
    n_node == n_face == n + 1."""
    nodes = [[((lon0 + 360.0 * i / n + 180) % 360) - 180, lat_base] for i in range(n)]
    nodes.append([0.0, 90.0])
    faces = [list(range(n - 1, -1, -1))]
    for i in range(n):
        faces.append([i, (i + 1) % n, n])
    return {"nodes": nodes, "faces": faces, "family": "pyramid"}


def prism(n, lat=35.0, lon0=10.0, twist=False):
    """two n-gons (south seen from below, north from above) joined by quads (or triangles
    when twisted: antiprism)."""
    off = 180.0 / n if twist else 0.0
    bot = [[((lon0 + 360.0 * i / n + 180) % 360) - 180, -lat] for i in range(n)]
    top = [[((lon0 + off + 360.0 * i / n + 180) % 360) - 180, lat] for i in range(n)]
    nodes = bot + top
    faces = [list(range(n - 1, -1, -1)), list(range(n, 2 * n))]
    for i in range(n):
        i2 = (i + 1) % n
        if twist:
            faces.append([i, i2, n + i])
            faces.append([i2, n + i2, n + i])
        else:
            faces.append([i, i2, n + i2, n + i])
    return {"nodes": nodes, "faces": faces, "family": "antiprism" if twist else "prism"}


@st.composite
def solid_mesh_st(draw, renumber=True):
    kind = draw(sampled_from(["pyramid", "prism", "antiprism", "cube"]))
    n = draw(st.integers(3, 8))
    lon0 = draw(st.floats(-180, 180, allow_nan=False))
    if kind == "pyramid":
        m = pyramid(n, draw(st.floats(-60, -5)), lon0)  # base below the equator: a convex face smaller than a hemisphere
    elif kind == "prism":
        m = prism(n, draw(st.floats(15, 60)), lon0, False)
    elif kind == "antiprism":
        m = prism(n, draw(st.floats(15, 60)), lon0, True)
    else:
        m = cubed_sphere(draw(st.integers(1, 3)))
    fam = m["family"]
    if renumber:
        m = finish_mesh(draw, [tuple(p) for p in m["nodes"]], m["faces"], True)
    m["family"] = fam
    return m


def subdivide_edges(draw, mesh, max_splits=3):
    """Insert a node in some edges (both faces get it): faces then share two consecutive
    edges and the new node has valence 2.  Legal connectivity, not strictly convex."""
    faces = [list(f) for f in mesh["faces"]]
    nodes = [list(p) for p in mesh["nodes"]]
    xyz = mesh_xyz(mesh)
    ed = sorted(tuple(sorted(k)) for k in edges_of(faces))
    k = draw(st.integers(1, max_splits))
    for _ in range(k):
        a, b = ed[draw(st.integers(0, len(ed) - 1))]
        if max(len(f) for f in faces if a in f and b in f) >= 8:
            continue
        mid = S.arc_midpoint(tuple(xyz[a]), tuple(xyz[b]))
        new = len(nodes)
        lon, lat = S.xyz2ll(mid)
        nodes.append([lon, lat])
        hit = False
        for f in faces:
            n = len(f)
            for j in range(n):
                if {f[j], f[(j + 1) % n]} == {a, b}:
                    f.insert(j + 1, new)
                    hit = True
                    break
        if not hit:
            nodes.pop()
        ed = sorted(tuple(sorted(k)) for k in edges_of(faces))
        xyz = S.ll2xyz_np([p[0] for p in nodes], [p[1] for p in nodes])
    return {"nodes": nodes, "faces": faces, "family": mesh.get("family", "") + "-subdiv"}


@st.composite
def tiny_patch_mesh(draw, renumber=True, micro=False):
    """High-resolution regional patch: nx x ny nodes, cells of 1e-3 .. 0.5 degrees, quads, triangles or both.
    micro=True adds sub-metre cells (2e-6 and 2e-7 degrees: 20 and 2 cm), below the position tolerance of the geometric oracles: only for
    checks whose verdict on such a mesh is tolerance-free (index structure, counts)."""
    nx, ny = draw(st.integers(3, 5)), draw(st.integers(3, 5))
    d = draw(sampled_from([1e-3, 1e-2, 0.1, 0.5] + ([2e-6, 2e-7] if micro else [])))
    lon0 = draw(sampled_from([10.0, 179.9, -0.002, 100.0]))
    lat0 = draw(sampled_from([0.0, 40.0, -70.0, 85.0]))
    tri = draw(sampled_from(["quad", "tri", "mixed"]))
    nodes = [(((lon0 + i * d + 180.0) % 360.0) - 180.0, lat0 + j * d * 0.8) for j in range(ny) for i in range(nx)]
    faces = []
    for j in range(ny - 1):
        for i in range(nx - 1):
            a, b, c, e = j * nx + i, j * nx + i + 1, (j + 1) * nx + i + 1, (j + 1) * nx + i
            if tri == "quad" or (tri == "mixed" and (i + j) % 2 == 0):
                faces.append([a, b, c, e])
            else:
                faces += [[a, b, c], [a, c, e]]
    mesh = finish_mesh(draw, nodes, faces, renumber)
    mesh["family"] = "tiny-patch"
    return mesh


@st.composite
def polar_patch_mesh(draw, renumber=True):
    """Cells next to a pole (the polar rows of a quarter-degree mesh): 1-3 rings of 3-8 nodes at 0.02 .. 0.85 degrees
    from the pole -- outside the library's documented pole cap (|z| > 1 - 1e-8, i.e. 0.0081 degrees), inside any wider
    band a careless tolerance would snap -- around the pole node itself (triangle fan), an n-gon enclosing the pole, or
    a hole.  Regular or irregular longitudes; either pole."""
    north = draw(st.booleans())
    n = draw(st.integers(3, 8))
    c1 = draw(sampled_from([0.02, 0.05, 0.1, 0.2]))
    dc = draw(sampled_from([0.03, 0.1, 0.2]))
    m = draw(st.integers(1, 3))
    lon0 = draw(sampled_from([0.0, 7.3, -180.0, 33.0]))
    centre = draw(sampled_from(["pole", "cap", "hole"]))
    if m == 1 and centre == "hole":
        centre = "cap"
    jit = draw(st.lists(st.floats(-0.2, 0.2, allow_nan=False), min_size=n, max_size=n)) if draw(st.booleans()) else [0.0] * n
    lons = [((lon0 + (k + jit[k]) * 360.0 / n + 180.0) % 360.0) - 180.0 for k in range(n)]
    sg = 1.0 if north else -1.0
    nodes = []
    for r in range(m):
        for k in range(n):
            nodes.append((lons[k], sg * (90.0 - (c1 + r * dc))))
    faces = []
    for r in range(m - 1):
        for k in range(n):
            k2 = (k + 1) % n
            faces.append([(r + 1) * n + k, (r + 1) * n + k2, r * n + k2, r * n + k])  # outer edge eastward
    if centre == "pole":
        pole = len(nodes)
        nodes.append((0.0, sg * 90.0))
        for k in range(n):
            faces.append([pole, k, (k + 1) % n])
    elif centre == "cap":
        faces.append(list(range(n)))
    if not north:
        faces = [f[::-1] for f in faces]
    mesh = finish_mesh(draw, nodes, faces, renumber)
    mesh["family"] = "polar-patch"
    return mesh


def with_orphan_nodes(draw, mesh, gap_max=9):
    """The same faces inside a longer node list: node i moves to the running sum of drawn gaps (1..gap_max), the
    nodes in between are used by no face (legal UGRID; e.g. a regional extract that keeps the full mesh's numbering)."""
    n_old = len(mesh["nodes"])
    gaps = draw(st.lists(st.integers(1, gap_max), min_size=n_old, max_size=n_old))
    new_idx, acc = [], draw(st.integers(0, gap_max)) - 1
    for gp in gaps:
        acc += gp
        new_idx.append(acc)
    n_new = new_idx[-1] + 1 + draw(st.integers(0, 3))
    nodes = [[0.0, -89.9 + 1e-4 * (k % 1000)] for k in range(n_new)]
    for i, p_ in enumerate(mesh["nodes"]):
        nodes[new_idx[i]] = p_
    out = dict(mesh, nodes=nodes, faces=[[new_idx[i] for i in f] for f in mesh["faces"]])
    out["family"] = mesh.get("family", "?") + "-orphan-nodes"
    out.pop("centers", None)
    return out


@st.composite
def any_mesh(draw, max_pts=24, partial=True, structured=True, voronoi=True, renumber=True, tiny=False, orphans=False, polar=False):
    if orphans and draw(st.integers(0, 7)) == 0:
        return with_orphan_nodes(draw, draw(any_mesh(max_pts, partial, structured, voronoi, renumber, tiny, False, polar)), draw(sampled_from([2, 9, 40])))
    if polar and draw(st.integers(0, 9)) == 0:
        return draw(polar_patch_mesh(renumber))
    if tiny and draw(st.integers(0, 6)) == 0:
        return draw(tiny_patch_mesh(renumber))
    opts = ["hull", "hull", "hull"]
    if voronoi:
        opts.append("voronoi")
    if structured:
        opts += ["latlon", "solid"]
    k = draw(sampled_from(opts))
    if k == "hull":
        return draw(hull_mesh(4, max_pts, partial=partial, renumber=renumber))
    if k == "voronoi":
        return draw(voronoi_mesh(6, max(8, max_pts), renumber=renumber))
    if k == "latlon":
        return draw(latlon_mesh_st(renumber))
    return draw(solid_mesh_st(renumber))


# ----------------------------------------------------------------------------- classification
def mesh_labels(mesh):
    sizes = face_sizes(mesh)
    labs = [f"family:{mesh.get('family', '?')}"]
    if len(set(sizes)) > 1:
        labs.append("mixed-size")
    for s in sorted(set(sizes)):
        labs.append(f"has-{s}gon")
    ed = edges_of(mesh["faces"])
    if any(len(v) == 1 for v in ed.values()):
        labs.append("partial")
    else:
        labs.append("closed")
    if len(mesh["faces"]) == 1:
        labs.append("single-face")
    if mesh.get("layout", "C") != "C":
        labs.append("layout:" + mesh["layout"])
    nodes = mesh["nodes"]
    if any(abs(abs(p[1]) - 90.0) < 1e-12 for p in nodes):
        labs.append("pole-node")
    if any(abs(abs(p[0]) - 180.0) < 1e-12 for p in nodes):
        labs.append("node-on-antimeridian")
    am = False
    for f in mesh["faces"]:
        for j in range(len(f)):
            if abs(nodes[f[j]][0] - nodes[f[(j + 1) % len(f)]][0]) > 180.0:
                am = True
    if am:
        labs.append("antimeridian-face")
    if len(nodes) == len(mesh["faces"]):
        labs.append("n_node==n_face")
    if len(nodes) == len(ed):
        labs.append("n_node==n_edge")
    if len(mesh["faces"]) == len(ed):
        labs.append("n_face==n_edge")
    return labs
