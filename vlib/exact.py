"""Exact rational predicates on float inputs (fractions.Fraction)."""

from fractions import Fraction as F


def fr(v):
    return (F(float(v[0])), F(float(v[1])), F(float(v[2])))


def cross(a, b):
    return (a[1] * b[2] - a[2] * b[1], a[2] * b[0] - a[0] * b[2], a[0] * b[1] - a[1] * b[0])


def dot(a, b):
    return a[0] * b[0] + a[1] * b[1] + a[2] * b[2]


def det(a, b, c):
    return dot(a, cross(b, c))


def sign(x):
    return (x > 0) - (x < 0)


def on_plane(a, b, p):
    """Is p exactly on the plane through the origin, a and b?  (floats in, exact answer)"""
    return det(fr(a), fr(b), fr(p)) == 0


def side_signs(a, b, p):
    """For p on the great circle of (a, b): signs of (a x p).n and (p x b).n with n = a x b.
    (+,+) <=> p strictly inside the minor arc; a zero means p coincides with an endpoint direction
    (or its antipode)."""
    A, B, P = fr(a), fr(b), fr(p)
    n = cross(A, B)
    return sign(dot(cross(A, P), n)), sign(dot(cross(P, B), n))


def strictly_inside_arc(a, b, p):
    s1, s2 = side_signs(a, b, p)
    return s1 > 0 and s2 > 0


def arcs_crossing(a1, b1, a2, b2):
    """Exact intersection analysis of two minor arcs on different great circles.
    Returns (n_common, direction) where direction is the exact crossing direction as a tuple
    of Fractions (not normalised) or None.  Endpoint-touching counts as common; callers use
    float margins to stay away from that."""
    A1, B1, A2, B2 = fr(a1), fr(b1), fr(a2), fr(b2)
    n1, n2 = cross(A1, B1), cross(A2, B2)
    x = cross(n1, n2)
    if x == (0, 0, 0):
        return None, None  # same great circle
    hits = []
    for s in (1, -1):
        p = (s * x[0], s * x[1], s * x[2])
        ok = True
        for (A, B, n) in ((A1, B1, n1), (A2, B2, n2)):
            s1 = sign(dot(cross(A, p), n))
            s2 = sign(dot(cross(p, B), n))
            if not (s1 >= 0 and s2 >= 0):
                ok = False
        if ok:
            hits.append(p)
    return len(hits), (hits[0] if hits else None)


def to_unit_float(p):
    import math

    x, y, z = (float(c) for c in p)
    m = max(abs(x), abs(y), abs(z))
    if m == 0:
        return (0.0, 0.0, 0.0)
    # scale first (Fractions can be tiny/huge after products)
    fx, fy, fz = (float(c / F(m)) if False else c for c in (x / m, y / m, z / m))
    n = math.sqrt(fx * fx + fy * fy + fz * fz)
    return (fx / n, fy / n, fz / n)
