"""C10 — xarray operations keep a UxDataArray attached to a consistent grid."""

import numpy as np
from hypothesis import strategies as st

from ..core import sampled_from  # noqa: E402

from .. import build, datagen, meshgen, refmodel
from ..core import Failure

ID = "C10"
RULE = (
    "programs: 1-6 operation descriptors applied in lock-step to a UxDataArray (face-, node- or edge-centred, 1-2 leading "
    "dimensions with coordinates, float64/float32/int64) and to the plain xarray.DataArray holding the same data. Catalogue: "
    "arithmetic with scalars / itself / a numpy array / a plain DataArray along a leading dim, comparisons, unary ops, numpy "
    "ufuncs, where (1 and 2 arguments), clip, fillna, astype, isnull, round, isel / sel / [] on leading dims (keyword, "
    "positional-dict and combined with a grid dimension), reductions and cumulative / rolling operations along leading dims, "
    "transpose, rename, assign_coords, expand_dims, squeeze, shift, diff, xr.concat along an old or new non-grid dim, shallow "
    "and deep copy; interleaved with uxarray's isel(n_face|n_node=...), integrate, gradient, difference, topological_mean, "
    "remap.nearest_neighbor and get_dual when their preconditions hold. After every step: type, attached grid, values "
    "against plain xarray, grid-dimension sizes against the attached grid's element counts. Also reductions over the grid dimension, copy.deepcopy, a deep-copy probe of every other result (own, equal grid), and the same index list applied along two grid dimensions to two arrays of one grid (second selection vs a fresh grid). Non-trivial = at least two steps "
    "executed and at least one outside plain arithmetic; distinct by case hash."
)
ASSUMPTIONS = [
    "results that are Datasets or scalars are not asserted; to_dataset / UxDataset are unusable in this environment (xarray API drift)",
    "values of uxarray's own operators are judged by C06/C09/C12/C16/C17/C18; here only type, grid and grid-dimension sizes are asserted for them and the plain-xarray shadow is re-synchronised from the result",
    "a deep copy must carry a grid that is a different object and compares equal; mutation independence is judged by C19",
    "when an operation loses the grid (a failure), the result is re-wrapped so the rest of the program still runs",
]
BUDGET = {
    "quick": dict(shards=4, examples=250),
    "thorough": dict(shards=16, examples=3000, wall_cap_s=1500),
}
GRID_DIMS = ("n_node", "n_edge", "n_face")

XR_OPS = [
    "add", "sub", "mul", "rsub", "neg", "abs", "pow2", "add_self", "mul_np", "add_lead_da", "gt", "eq",
    "np.sin", "np.tanh", "np.add", "np.maximum", "np.abs",
    "where1", "where2", "clip", "fillna", "astype32", "astype64", "astypeint", "isnull", "round",
    "isel_kw", "isel_list", "isel_slice", "isel_posdict", "isel_indexers_kw", "getitem", "sel",
    "mean", "sum", "max", "min", "std", "median", "count", "argmax", "cumsum", "cumprod", "rolling_mean", "rolling_sum",
    "transpose", "T", "rename", "rename_dim", "assign_coords", "expand_dims", "squeeze1", "shift", "diff",
    "concat_old", "concat_new", "copy_shallow", "copy_deep", "deepcopy", "copy_deep_data", "copy_default_data", "copy_shallow_data", "isel_lead_and_grid",
    "sum_grid", "mean_grid", "max_grid",
]
UX_OPS = ["ux.isel_face", "ux.isel_node", "ux.integrate", "ux.gradient", "ux.difference", "ux.topological_mean", "ux.remap_nn", "ux.get_dual", "ux.isel_two_dims"]
DEEP_COPIES = ("copy_deep", "deepcopy", "copy_deep_data", "copy_default_data")
PLAIN_ARITH = {"add", "sub", "mul", "rsub", "neg", "abs", "pow2", "add_self", "mul_np", "gt", "eq"}
# operations that xarray routes through apply_ufunc / rolling / isnull: the family of the known finding
APPLY_UFUNC_FAMILY = {"np.sin", "np.tanh", "np.add", "np.maximum", "np.abs", "where1", "where2", "clip", "fillna", "astype32", "astype64", "astypeint", "isnull", "rolling_mean", "rolling_sum"}


@st.composite
def _case(draw, tier):
    big = tier != "quick"
    fam = draw(sampled_from(["hull", "hull", "hull-partial", "solid", "latlon"]))
    if fam.startswith("hull"):
        mesh = draw(meshgen.hull_mesh(6, 20 if big else 12, partial=fam == "hull-partial"))
    elif fam == "solid":
        mesh = draw(meshgen.solid_mesh_st())
    else:
        mesh = draw(meshgen.latlon_mesh_st())
    mesh.pop("centers", None)
    centred = draw(sampled_from(["face", "face", "node", "edge"]))
    nops = draw(st.integers(1, 6))
    pool = XR_OPS * 2 + UX_OPS * 3
    ops = [{"op": draw(sampled_from(pool)), "a": draw(st.integers(0, 7)), "s": draw(sampled_from([-2.5, -1.0, 0.5, 1.0, 2.0, 3.0]))} for _ in range(nops)]
    return {
        "mesh": mesh,
        "centred": centred,
        "lead": draw(st.lists(st.integers(2, 3), min_size=1, max_size=2)),
        "dtype": draw(sampled_from(["float64", "float64", "float32", "int64"])),
        "seed": draw(st.integers(0, 2**31 - 1)),
        "ops": ops,
    }


def strategy(tier, excl):
    return _case(tier)


def classify(case):
    ops = [o["op"] for o in case["ops"]]
    labs = [f"depth:{len(ops)}", "data:" + case["centred"], "dtype:" + case["dtype"]] + ["op:" + o for o in sorted(set(ops))]
    if any(o.startswith("ux.") for o in ops):
        labs.append("has-ux-op")
    return labs, (len(ops) >= 2 and any(o not in PLAIN_ARITH for o in ops))


def _n_of(g, dim):
    return {"n_node": g.n_node, "n_edge": g.n_edge, "n_face": g.n_face}[dim]


def run_case(case, ctx):
    import xarray as xr

    ux = build.ux()
    mesh = case["mesh"]
    g = build.grid_from_mesh(mesh)
    fails = []
    n_elem = {"face": len(mesh["faces"]), "node": len(mesh["nodes"]), "edge": len(refmodel.edge_set(mesh["faces"]))}[case["centred"]]
    lead = tuple(case["lead"])
    rs = np.random.RandomState(case["seed"] % (2**32))
    raw = rs.randint(-12, 13, size=lead + (n_elem,))
    arr = (raw / 4.0).astype(case["dtype"]) if case["dtype"].startswith("float") else raw.astype(case["dtype"])
    lead_names = datagen.LEAD_NAMES[: len(lead)]
    dims = lead_names + ["n_" + case["centred"]]
    coords = {lead_names[0]: np.arange(lead[0]) * 10.0}
    d = ux.UxDataArray(arr.copy(), dims=dims, uxgrid=g, name="v", coords=coords)
    x = xr.DataArray(arr.copy(), dims=dims, name="v", coords=coords)
    executed = 0

    def bad(oracle, site, kind, detail):
        fails.append(Failure(oracle, site, kind, detail))

    def lead_dims_of(a):
        return [dm for dm in a.dims if dm not in GRID_DIMS]

    def grid_dim_of(a):
        gd = [dm for dm in a.dims if dm in GRID_DIMS]
        return gd[0] if len(gd) == 1 else None

    def check_generic(res, grid, site, step):
        """type + grid-dimension sizes; returns a usable UxDataArray (re-wrapped on failure) or None."""
        ctx.ev("result_is_uxda")
        if not isinstance(res, xr.DataArray):
            return None  # Dataset / scalar: not asserted
        if not isinstance(res, ux.UxDataArray):
            bad("result_is_uxda", site, "type=" + type(res).__name__, f"step {step}: result is {type(res).__module__}.{type(res).__name__}")
            res = ux.UxDataArray(res, uxgrid=grid)
        return res

    def check_dims(res, site, step):
        ctx.ev("grid_dims_consistent")
        rg = res.uxgrid
        for dm in res.dims:
            if dm in GRID_DIMS:
                if rg is None:
                    bad("grid_dims_consistent", site, "no-grid", f"step {step}: result has dimension {dm} but no grid attached")
                    return False
                if res.sizes[dm] != _n_of(rg, dm):
                    bad("grid_dims_consistent", site, "size-mismatch", f"step {step}: result has {dm}={res.sizes[dm]} but its grid has {_n_of(rg, dm)} (dims {res.dims})")
                    return False
        return True

    def probe_copy(cur, op, step):
        """whatever the array has become, a deep copy of it owns an equal grid of its own"""
        if cur.uxgrid is None:
            return True
        ctx.ev("deep_copy_of_result")
        cp = cur.copy(deep=True) if step % 2 == 0 else cur.copy(deep=True, data=np.asarray(cur.values).copy())
        if not isinstance(cp, ux.UxDataArray) or cp.uxgrid is None or cp.uxgrid is cur.uxgrid or not (cp.uxgrid == cur.uxgrid):
            shares = getattr(cp, "uxgrid", None) is cur.uxgrid
            bad("same_grid", "probe:copy_deep-after:" + op, "deep-copy-shares-grid" if shares else "deep-copy-grid-wrong", f"step {step}: a deep copy of the result of {op} (dims {cur.dims}) has grid {'the same object' if shares else getattr(cp, 'uxgrid', None)}")
            return False
        return True

    for step, o in enumerate(case["ops"]):
        op, a, s = o["op"], o["a"], o["s"]
        site = ("op:apply_ufunc-family:" if op in APPLY_UFUNC_FAMILY else "op:") + op
        leads = lead_dims_of(d)
        gd = grid_dim_of(d)
        L = leads[a % len(leads)] if leads else None
        f = None  # function applied to both d and x
        try:
            if op == "add":
                f = lambda q: q + s
            elif op == "sub":
                f = lambda q: q - s
            elif op == "mul":
                f = lambda q: q * s
            elif op == "rsub":
                f = lambda q: s - q
            elif op == "neg":
                f = lambda q: -q
            elif op == "abs":
                f = lambda q: abs(q)
            elif op == "pow2":
                f = lambda q: q**2
            elif op == "add_self":
                f = lambda q: q + q
            elif op == "mul_np":
                k = np.arange(d.size, dtype=float).reshape(d.shape) % 3
                f = lambda q: q * k
            elif op == "add_lead_da":
                if L is None:
                    continue
                other = xr.DataArray(np.arange(d.sizes[L], dtype=float), dims=[L])
                f = lambda q: q + other
            elif op == "gt":
                f = lambda q: q > s
            elif op == "eq":
                f = lambda q: q == s
            elif op == "np.sin":
                f = lambda q: np.sin(q)
            elif op == "np.tanh":
                f = lambda q: np.tanh(q)
            elif op == "np.add":
                f = lambda q: np.add(q, s)
            elif op == "np.maximum":
                f = lambda q: np.maximum(q, s)
            elif op == "np.abs":
                f = lambda q: np.abs(q)
            elif op == "where1":
                f = lambda q: q.where(q > s)
            elif op == "where2":
                f = lambda q: q.where(q > s, 0)
            elif op == "clip":
                f = lambda q: q.clip(-abs(s), abs(s))
            elif op == "fillna":
                f = lambda q: q.fillna(s)
            elif op == "astype32":
                f = lambda q: q.astype("float32")
            elif op == "astype64":
                f = lambda q: q.astype("float64")
            elif op == "astypeint":
                if d.dtype.kind == "f" and not np.all(np.isfinite(np.asarray(d.values))):
                    continue
                f = lambda q: q.astype("int64")
            elif op == "isnull":
                f = lambda q: q.isnull()
            elif op == "round":
                f = lambda q: q.round()
            elif op in ("isel_kw", "isel_list", "isel_slice", "isel_posdict", "isel_indexers_kw", "getitem", "sel", "squeeze1"):
                if L is None:
                    continue
                i = a % d.sizes[L]
                if op == "isel_kw":
                    f = lambda q: q.isel(**{L: i})
                elif op == "isel_list":
                    f = lambda q: q.isel(**{L: [i, 0]})
                elif op == "isel_slice":
                    f = lambda q: q.isel(**{L: slice(0, i + 1)})
                elif op == "isel_posdict":
                    f = lambda q: q.isel({L: i})
                elif op == "isel_indexers_kw":
                    f = lambda q: q.isel(indexers={L: i})
                elif op == "getitem":
                    if d.dims[0] in GRID_DIMS:
                        continue
                    i0 = a % d.sizes[d.dims[0]]
                    f = lambda q: q[i0]
                elif op == "sel":
                    if L not in d.coords:
                        continue
                    val = float(np.asarray(d.coords[L].values).ravel()[i])
                    if np.sum(np.asarray(d.coords[L].values) == val) != 1:
                        continue
                    f = lambda q: q.sel(**{L: val})
                else:
                    f = lambda q: q.isel(**{L: [i]}).squeeze(L)
            elif op in ("mean", "sum", "max", "min", "std", "median", "count", "argmax", "cumsum", "cumprod"):
                if L is None:
                    continue
                if op == "argmax" and d.dtype.kind == "f" and np.any(np.all(np.isnan(np.asarray(d.values, float)), axis=d.dims.index(L))):
                    continue
                f = lambda q: getattr(q, op)(L)
            elif op in ("rolling_mean", "rolling_sum"):
                if L is None or d.sizes[L] < 2:
                    continue
                f = lambda q: getattr(q.rolling(**{L: 2}), op.split("_")[1])()
            elif op == "transpose":
                perm = list(d.dims)
                perm = perm[1:] + perm[:1]
                f = lambda q: q.transpose(*perm)
            elif op == "T":
                f = lambda q: q.T
            elif op == "rename":
                f = lambda q: q.rename("w" + str(a))
            elif op == "rename_dim":
                if L is None or ("r_" + L) in d.dims:
                    continue
                f = lambda q: q.rename({L: "r_" + L})
            elif op == "assign_coords":
                if L is None:
                    continue
                vals = np.arange(d.sizes[L]) * 1.5 + a
                f = lambda q: q.assign_coords(**{L: vals})
            elif op == "expand_dims":
                nm = "extra" + str(step)
                f = lambda q: q.expand_dims(nm)
            elif op == "shift":
                if L is None:
                    continue
                f = lambda q: q.shift(**{L: 1})
            elif op == "diff":
                if L is None or d.sizes[L] < 2:
                    continue
                f = lambda q: q.diff(L)
            elif op == "concat_old":
                if L is None:
                    continue
                f = lambda q: xr.concat([q, q], dim=L)
            elif op == "concat_new":
                nm = "cat" + str(step)
                f = lambda q: xr.concat([q, q * 2], dim=nm)
            elif op == "copy_shallow":
                f = lambda q: q.copy(deep=False)
            elif op == "copy_deep":
                f = lambda q: q.copy(deep=True)
            elif op == "deepcopy":
                import copy as _copy

                f = lambda q: _copy.deepcopy(q)
            elif op == "copy_deep_data":
                # replacement data: xarray ignores `deep` for the data variable only; it is still a deep copy
                f = lambda q: q.copy(deep=True, data=np.asarray(q.values)[..., ::-1].copy())
            elif op == "copy_default_data":
                f = lambda q: q.copy(data=np.asarray(q.values)[..., ::-1].copy())  # deep defaults to True
            elif op == "copy_shallow_data":
                f = lambda q: q.copy(deep=False, data=np.asarray(q.values)[..., ::-1].copy())
            elif op in ("sum_grid", "mean_grid", "max_grid"):
                # reduction over the grid dimension itself: the result carries no grid dimension but stays attached
                if gd is None or not leads:
                    continue
                f = lambda q: getattr(q, op.split("_")[0])(gd)
            elif op == "isel_lead_and_grid":
                if L is None or gd != "n_face":
                    continue
                i = a % d.sizes[L]
                idx = sorted({a % d.sizes["n_face"], (a * 3 + 1) % d.sizes["n_face"]})
                res = d.isel(**{L: i, "n_face": idx})
                executed += 1
                ctx.label("executed:" + op)
                res = check_generic(res, d.uxgrid, site, step)
                if res is None:
                    continue
                ctx.ev("values_equal_xarray")
                exp = x.isel(**{L: i, "n_face": idx})
                if tuple(res.dims) != tuple(exp.dims) or res.shape != exp.shape:
                    bad("values_equal_xarray", site, "shape", f"step {step}: isel({L}={i}, n_face={idx}) gave dims {res.dims} shape {res.shape}; plain xarray gives {exp.dims} {exp.shape}")
                    check_dims(res, site, step)
                    d, x = res, xr.DataArray(np.asarray(res.values), dims=res.dims, name=res.name)
                    continue
                if not check_dims(res, site, step):
                    return fails
                d, x = res, xr.DataArray(np.asarray(res.values), dims=res.dims, name=res.name, coords={k: v for k, v in exp.coords.items() if k in exp.dims})
                continue
            elif op.startswith("ux."):
                g0 = d.uxgrid
                last_is_grid = d.dims[-1] in GRID_DIMS
                if op == "ux.isel_face":
                    if gd != "n_face":
                        continue
                    idx = sorted({a % d.sizes[gd], (a * 5 + 2) % d.sizes[gd], (a + 1) % d.sizes[gd]})
                    res = d.isel(n_face=idx)
                elif op == "ux.isel_node":
                    if gd is None:
                        continue
                    res = d.isel(n_node=[a % g0.n_node])
                elif op == "ux.integrate":
                    if gd != "n_face" or not last_is_grid:
                        continue
                    res = d.integrate()
                elif op == "ux.gradient":
                    if gd != "n_face" or not last_is_grid or d.dtype.kind == "b":
                        continue
                    res = d.gradient()
                elif op == "ux.difference":
                    if gd not in ("n_face", "n_node") or not last_is_grid or d.dtype.kind == "b":
                        continue
                    res = d.difference(destination="edge")
                elif op == "ux.topological_mean":
                    if gd != "n_node" or not last_is_grid:
                        continue
                    res = d.topological_mean(destination="face" if a % 2 == 0 else "edge")
                elif op == "ux.remap_nn":
                    if gd is None or not last_is_grid:
                        continue
                    dest = build.grid_from_mesh(meshgen.cubed_sphere(1 + a % 2))
                    res = d.remap.nearest_neighbor(dest, remap_to=["nodes", "face centers", "edge centers"][a % 3])
                elif op == "ux.isel_two_dims":
                    # the same index list along two different grid dimensions, on two arrays attached to one grid:
                    # each selection is judged on its own (fresh-grid twin for the node selection)
                    if gd is None or g0 is not g:
                        continue
                    other = "n_node" if gd != "n_node" else "n_face"
                    m = min(d.sizes[gd], _n_of(g0, other))
                    idx = sorted({a % m, (a * 3 + 1) % m})
                    first = d.isel(**{gd: idx})
                    e1 = ux.UxDataArray(np.arange(_n_of(g0, other), dtype=float), dims=[other], uxgrid=g0, name="e")
                    second = e1.isel(**{other: idx})
                    g2 = build.grid_from_mesh(mesh)
                    e2 = ux.UxDataArray(np.arange(_n_of(g2, other), dtype=float), dims=[other], uxgrid=g2, name="e")
                    ref = e2.isel(**{other: idx})
                    ctx.ev("isel_history_independent")
                    same_sel = (
                        isinstance(second, ux.UxDataArray)
                        and tuple(second.dims) == tuple(ref.dims)
                        and second.shape == ref.shape
                        and np.array_equal(np.asarray(second.values), np.asarray(ref.values))
                        and second.uxgrid is not None
                        and (second.uxgrid.n_face, second.uxgrid.n_node) == (ref.uxgrid.n_face, ref.uxgrid.n_node)
                        and np.array_equal(np.asarray(second.uxgrid.face_node_connectivity.values), np.asarray(ref.uxgrid.face_node_connectivity.values))
                    )
                    if not same_sel:
                        bad("isel_history_independent", site, "differs-from-fresh-grid", f"step {step}: after isel({gd}={idx}) on one array, isel({other}={idx}) on another array of the same grid gave shape {getattr(second, 'shape', None)} values {np.asarray(second.values).ravel()[:6]} on a grid of {second.uxgrid.n_face if second.uxgrid is not None else None} faces; on a fresh grid the same selection gives shape {ref.shape} values {np.asarray(ref.values).ravel()[:6]} on {ref.uxgrid.n_face} faces")
                        return fails
                    if other == "n_face" and not np.array_equal(np.asarray(second.values), np.asarray(idx, float)):
                        bad("values_equal_xarray", site, "values", f"step {step}: isel(n_face={idx}) of arange returned {np.asarray(second.values)}")
                        return fails
                    res = first
                elif op == "ux.get_dual":
                    if gd not in ("n_face", "n_node") or not refmodel.is_closed(mesh["faces"]) or g0 is not g:
                        continue
                    res = d.get_dual()
                else:
                    continue
                executed += 1
                ctx.label("executed:" + op)
                res = check_generic(res, g0, site, step)
                if res is None:
                    return fails
                ctx.ev("ux_result_has_grid")
                if res.uxgrid is None:
                    bad("same_grid", site, "grid=None", f"step {step}: result of {op} has no grid")
                    return fails
                if op in ("ux.integrate", "ux.gradient", "ux.difference", "ux.topological_mean") and res.uxgrid is not g0:
                    bad("same_grid", site, "other-grid", f"step {step}: {op} returned an array attached to another grid object")
                if not check_dims(res, site, step):
                    return fails
                d = res
                x = xr.DataArray(np.asarray(res.values), dims=res.dims, name=res.name, coords={k: v for k, v in res.coords.items() if k in res.dims})
                if a % 2 == 0 and not probe_copy(d, op, step):
                    return fails
                if res.ndim == 0:
                    return fails
                continue
            else:
                continue

            # ---- plain xarray operation applied in lock-step
            try:
                ex = f(x)
            except Exception:
                continue  # plain xarray rejects it: not an admissible step
            g0 = d.uxgrid
            res = f(d)
            executed += 1
            ctx.label("executed:" + op)
            res = check_generic(res, g0, site, step)
            if res is None:
                return fails
            ctx.ev("same_grid")
            if op in DEEP_COPIES:
                if res.uxgrid is None or res.uxgrid is g0:
                    bad("same_grid", site, "deep-copy-shares-grid" if res.uxgrid is g0 else "grid=None", f"step {step}: deep copy's grid is {'the same object' if res.uxgrid is g0 else 'None'}")
                elif not (res.uxgrid == g0):
                    bad("same_grid", site, "deep-copy-grid-not-equal", f"step {step}: deep copy's grid does not compare equal to the original")
                if res.uxgrid is None:
                    res.uxgrid = g0
            elif res.uxgrid is not g0:
                bad("same_grid", site, "grid=None" if res.uxgrid is None else "other-grid", f"step {step}: result.uxgrid is {'None' if res.uxgrid is None else 'a different Grid object'} (dims {res.dims})")
                res.uxgrid = g0
            ctx.ev("values_equal_xarray")
            rv, ev = np.asarray(res.values), np.asarray(ex.values)
            if tuple(res.dims) != tuple(ex.dims) or rv.shape != ev.shape:
                bad("values_equal_xarray", site, "dims", f"step {step}: dims {res.dims} shape {rv.shape}; plain xarray gives {ex.dims} {ev.shape}")
                return fails
            if rv.dtype == object and ev.dtype == object and rv.shape == ev.shape:
                # object arrays (e.g. a shifted boolean array holding NaN): element-wise, NaN equal to NaN
                same_vals = all((a == b) or (a != a and b != b) for a, b in zip(rv.ravel().tolist(), ev.ravel().tolist()))
            else:
                same_vals = rv.dtype == ev.dtype and np.array_equal(rv, ev, equal_nan=rv.dtype.kind in "fc")
            if not same_vals:
                bad("values_equal_xarray", site, "values", f"step {step}: dtype {rv.dtype} vs {ev.dtype}; first values {rv.ravel()[:5]} vs plain xarray {ev.ravel()[:5]}")
                return fails
            if res.name != ex.name:
                bad("values_equal_xarray", site, "name", f"step {step}: name {res.name!r} vs {ex.name!r}")
            if not check_dims(res, site, step):
                return fails
            d, x = res, ex
            if a % 2 == 0 and op not in DEEP_COPIES and not probe_copy(d, op, step):
                return fails
            if d.ndim == 0:
                break
        finally:
            pass
    ctx.extra["steps_executed"] = ctx.extra.get("steps_executed", 0) + executed
    return fails
