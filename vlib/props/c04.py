"""C04 — Spherical and Cartesian coordinates always denote the same points."""

import math

import numpy as np
from hypothesis import strategies as st

from ..core import sampled_from  # noqa: E402

from .. import build, meshgen, refmodel, writers
from .. import sphere as S
from ..core import Failure

ID = "C04"
RULE = (
    "mesh (hull/voronoi/lat-lon/solid; planted nodes at poles, on lon=+-180, lon=0) x provenance (nodes: lon/lat only "
    "in +-180 or 0..360, xyz only via from_face_vertices(latlon=False) or an MPAS-like source without lon/lat, both via "
    "MPAS-like with radius 1 or 6371229; face/edge centres: not supplied, lon/lat only, xyz only, both) x a drawn "
    "permutation of first accesses of the 18 coordinate properties with normalize_cartesian_coordinates() at a drawn "
    "position. Oracles are independent conversions in vlib/sphere.py. Non-trivial = provenance other than 'node "
    "lon/lat in +-180, nothing supplied', or a planted special node; distinct by case hash."
)
ASSUMPTIONS = [
    "positions are equal when within 1e-7 rad or inside the same 1e-8 pole cap (library's documented snapping)",
    "generated nodes are exactly at a pole or at least 0.02 degrees away from it (polar-patch family: 0.02 .. 0.85 degrees; the library's documented pole cap is 0.0081 degrees wide)",
    "unit length is asserted for Cartesian coordinates the library derived, not for source-supplied ones before normalisation",
]
BUDGET = {
    "quick": dict(shards=4, examples=220),
    "thorough": dict(shards=16, examples=2500, wall_cap_s=1500),
}
PROPS = [f"{k}_{c}" for k in ("node", "edge", "face") for c in ("lon", "lat", "x", "y", "z")]
PROPS = [p for p in PROPS]  # 15 + normalize handled separately
SRC = ["topo-lonlat", "topo-lonlat-360", "verts-xyz", "verts-lonlat", "mpas-both", "mpas-xyz-only", "mpas-lonlat-only", "topo-centres", "topo-int-xyz"]

# solids whose corners have integer Cartesian coordinates (a source may store them as integers): cube, octahedron
_INT_SOLIDS = {
    "cube": ([(1, 1, 1), (-1, 1, 1), (-1, -1, 1), (1, -1, 1), (1, 1, -1), (-1, 1, -1), (-1, -1, -1), (1, -1, -1)],
             [[0, 1, 2, 3], [7, 6, 5, 4], [0, 3, 7, 4], [1, 5, 6, 2], [0, 4, 5, 1], [3, 2, 6, 7]]),
    "octahedron": ([(2, 0, 0), (0, 2, 0), (-2, 0, 0), (0, -2, 0), (0, 0, 2), (0, 0, -2)],
                   [[0, 1, 4], [1, 2, 4], [2, 3, 4], [3, 0, 4], [1, 0, 5], [2, 1, 5], [3, 2, 5], [0, 3, 5]]),
}


@st.composite
def _case(draw, tier):
    src = draw(sampled_from(SRC))
    big = tier != "quick"
    if src == "topo-int-xyz":
        which = draw(sampled_from(["cube", "octahedron"]))
        pts, fcs = _INT_SOLIDS[which]
        mesh = {"nodes": [list(S.xyz2ll(S.normalize(tuple(float(c) for c in p)))) for p in pts], "faces": [list(f) for f in fcs], "family": "int-" + which, "int_xyz": [list(p) for p in pts], "int_dtype": draw(sampled_from(["int64", "int32"]))}
    elif src.startswith("mpas"):
        mesh = draw(meshgen.voronoi_mesh(6, 26 if big else 14))
    else:
        mesh = draw(meshgen.any_mesh(max_pts=30 if big else 14, tiny=True, orphans=True, polar=True))
    c = {
        "mesh": mesh,
        "src": src,
        "order": draw(st.permutations(list(range(len(PROPS))))),
        "normalize_at": draw(sampled_from([None, None, 0, 3, 8, 15])),
        "radius": draw(sampled_from([1.0, 6371229.0, 2.5])),
        "centre_radius": draw(sampled_from([1.0, 2.0, 0.5, 6371.229])),
        "face_c": draw(sampled_from(["none", "lonlat", "lonlat360", "xyz", "both"])),
        "edge_c": draw(sampled_from(["none", "lonlat", "xyz", "both"])),
        "edge_seed": draw(st.integers(0, 999)),
        # history: afterwards the face centres are rebuilt through the public API; what the grid then reports must
        # still be one point per face in both coordinate systems
        "recentre": draw(sampled_from([None, None, "cartesian average", "welzl"])),
    }
    return c


def strategy(tier, excl):
    return _case(tier)


def classify(case):
    labs = ["src:" + case["src"]]
    ml = meshgen.mesh_labels(case["mesh"])
    labs += [l for l in ml if l in ("pole-node", "node-on-antimeridian", "antimeridian-face", "partial", "mixed-size", "family:polar-patch")]
    if case["src"] == "topo-centres":
        labs += ["face_c:" + case["face_c"], "edge_c:" + case["edge_c"]]
        if case.get("centre_radius", 1.0) != 1.0 and ("xyz" in (case["face_c"], case["edge_c"]) or "both" in (case["face_c"], case["edge_c"])):
            labs.append("supplied-centres-not-unit")
    if case.get("recentre"):
        labs.append("history:recentre-" + case["recentre"].split()[0])
    if case["normalize_at"] is not None:
        labs.append("normalize-called")
    if case["src"].startswith("mpas"):
        labs.append(f"radius:{case['radius']:g}")
    special = any(l in ("pole-node", "node-on-antimeridian") for l in ml)
    return labs, (case["src"] != "topo-lonlat" or special)


def _build(case):
    """Returns (grid, info) with info: supplied = set of {'node_ll','node_xyz','face_ll','face_xyz','edge_ll','edge_xyz'},
    face_truth (xyz per face or None = centroid definition), edge_truth (list of (pair, xyz)) or None."""
    INT_DTYPE, FILL = build.consts()
    ux = build.ux()
    mesh = case["mesh"]
    nodes = np.asarray(mesh["nodes"], float)
    src = case["src"]
    info = {"supplied": set(), "face_truth": None, "edge_truth": None, "radius": 1.0}
    if src in ("topo-lonlat", "topo-lonlat-360"):
        lon = nodes[:, 0].copy()
        if src.endswith("360"):
            lon = np.mod(lon, 360.0)
        g = ux.Grid.from_topology(lon, nodes[:, 1].copy(), build.padded_faces(mesh), fill_value=FILL)
        info["supplied"] = {"node_ll"}
    elif src in ("verts-xyz", "verts-lonlat"):
        w = max(len(f) for f in mesh["faces"])
        xyz = meshgen.mesh_xyz(mesh)
        if src == "verts-xyz":
            arr = np.full((len(mesh["faces"]), w, 3), float(FILL))
            for i, f in enumerate(mesh["faces"]):
                arr[i, : len(f)] = xyz[f]
            g = ux.Grid.from_face_vertices(arr, latlon=False)
            info["supplied"] = {"node_xyz"}
        else:
            arr = np.full((len(mesh["faces"]), w, 2), float(FILL))
            for i, f in enumerate(mesh["faces"]):
                arr[i, : len(f)] = nodes[f]
            g = ux.Grid.from_face_vertices(arr, latlon=True)
            info["supplied"] = {"node_ll"}
    elif src.startswith("mpas"):
        ds, winfo = writers.mpas_dataset(
            mesh, radius=case["radius"], edge_perm_seed=case["edge_seed"],
            with_xyz=src != "mpas-lonlat-only", with_latlon=src != "mpas-xyz-only",
        )
        g = ux.open_grid(ds)
        info["radius"] = case["radius"]
        if src != "mpas-xyz-only":
            info["supplied"] |= {"node_ll", "face_ll", "edge_ll"}
        if src != "mpas-lonlat-only":
            info["supplied"] |= {"node_xyz", "face_xyz", "edge_xyz"}
        info["face_truth"] = winfo["xyz_c"]
        info["edge_truth"] = [(refmodel.edge_key(a, b), winfo["xyz_e"][k]) for k, (a, b) in enumerate(winfo["edge_nodes"])]
    elif src == "topo-int-xyz":
        ixyz = np.asarray(mesh["int_xyz"], dtype=mesh.get("int_dtype", "int64"))
        g = ux.Grid.from_topology(nodes[:, 0].copy(), nodes[:, 1].copy(), build.padded_faces(mesh), fill_value=FILL,
                                  node_x=ixyz[:, 0].copy(), node_y=ixyz[:, 1].copy(), node_z=ixyz[:, 2].copy())
        info["supplied"] = {"node_ll", "node_xyz"}
        info["radius"] = float(np.linalg.norm(ixyz[0].astype(float)))
    elif src == "topo-centres":
        kw = {}
        fc = writers.face_centres_xyz(mesh)
        # supplied centres are deliberately NOT the centroids: shift them inside the face a little
        xyz = meshgen.mesh_xyz(mesh)
        fc2 = []
        for f, c in zip(mesh["faces"], fc):
            v = 0.8 * c + 0.2 * xyz[f[0]]
            fc2.append(v / np.linalg.norm(v))
        fc2 = np.array(fc2)
        if case["face_c"] in ("lonlat", "lonlat360", "both"):
            lon, lat = writers.lonlat_of(fc2, lon360=case["face_c"] == "lonlat360")
            kw["face_lon"], kw["face_lat"] = lon, lat
            info["supplied"].add("face_ll")
        if case["face_c"] in ("xyz", "both"):
            Rc = float(case.get("centre_radius", 1.0))  # supplied Cartesian centres need not be of unit length
            kw["face_x"], kw["face_y"], kw["face_z"] = Rc * fc2[:, 0], Rc * fc2[:, 1], Rc * fc2[:, 2]
            info["supplied"].add("face_xyz")
            info["centre_radius"] = Rc
        if case["face_c"] != "none":
            info["face_truth"] = fc2
        if case["edge_c"] != "none":
            edges = writers.numbered_edges(mesh, case["edge_seed"])
            ec = []
            for a, b in edges:
                v = 0.7 * xyz[a] + 0.3 * xyz[b]
                ec.append(v / np.linalg.norm(v))
            ec = np.array(ec)
            kw["edge_node_connectivity"] = np.array(edges, dtype=INT_DTYPE)
            if case["edge_c"] in ("lonlat", "both"):
                lon, lat = writers.lonlat_of(ec)
                kw["edge_lon"], kw["edge_lat"] = lon, lat
                info["supplied"].add("edge_ll")
            if case["edge_c"] in ("xyz", "both"):
                Rc = float(case.get("centre_radius", 1.0))
                kw["edge_x"], kw["edge_y"], kw["edge_z"] = Rc * ec[:, 0], Rc * ec[:, 1], Rc * ec[:, 2]
                info["supplied"].add("edge_xyz")
                info["centre_radius"] = Rc
            info["edge_truth"] = [(refmodel.edge_key(a, b), ec[k]) for k, (a, b) in enumerate(edges)]
        g = ux.Grid.from_topology(nodes[:, 0].copy(), nodes[:, 1].copy(), build.padded_faces(mesh), fill_value=FILL, **kw)
        info["supplied"].add("node_ll")
    else:
        raise ValueError(src)
    return g, info


def _normalize(g, first, pre, post):
    kinds = [k for k in ("node", "edge", "face") if all(f"{k}_{c}" in first for c in "xyz")]
    for k in kinds:
        pre[k] = tuple(np.array(getattr(g, f"{k}_{c}").values, dtype=float) for c in "xyz")
    g.normalize_cartesian_coordinates()
    for k in kinds:
        post[k] = tuple(np.array(getattr(g, f"{k}_{c}").values, dtype=float) for c in "xyz")


def _pos_ll(lon, lat):
    return S.ll2xyz(float(lon), float(lat))


def _same(a, b, tol=1e-7):
    return S.same_position(a, b, tol)


def run_case(case, ctx):
    INT_DTYPE, FILL = build.consts()
    mesh = case["mesh"]
    g, info = _build(case)
    fails = []
    site = case["src"]
    if case["src"] == "topo-centres":
        site += f"/face:{case['face_c']}/edge:{case['edge_c']}"

    def bad(oracle, kind, detail, s=None):
        fails.append(Failure(oracle, s or site, kind, detail))

    first = {}
    snap = {}
    pre_norm, post_norm = {}, {}
    normalized = False
    for pos, k in enumerate(case["order"]):
        if case["normalize_at"] is not None and pos == case["normalize_at"]:
            _normalize(g, first, pre_norm, post_norm)
            normalized = True
        name = PROPS[k]
        first[name] = np.array(getattr(g, name).values, dtype=float)
        # once the last member of a lon/lat pair or x/y/z triple has had its first access, re-read the
        # whole group at that moment (re-reads, not first accesses) so a group is judged as one snapshot
        kind, comp = name.split("_")
        grp = ("lon", "lat") if comp in ("lon", "lat") else ("x", "y", "z")
        if all(f"{kind}_{c}" in first for c in grp):
            for c in grp:
                snap[f"{kind}_{c}"] = np.array(getattr(g, f"{kind}_{c}").values, dtype=float)
    if case["normalize_at"] is not None and not normalized:
        _normalize(g, first, pre_norm, post_norm)
        normalized = True
    final = {name: np.array(getattr(g, name).values, dtype=float) for name in PROPS}

    conn = np.asarray(g.face_node_connectivity.values)
    en = np.asarray(g.edge_node_connectivity.values)
    mxyz = meshgen.mesh_xyz(mesh)
    # truth position of each *grid* node, through the faces (readers may renumber nodes)
    n_node = int(g.n_node)
    truth_node = [None] * n_node
    for fi, f in enumerate(mesh["faces"]):
        for j, m in enumerate(f):
            n = int(conn[fi, j])
            if n == FILL or not (0 <= n < n_node):
                bad("truth", "face-node-table", f"face {fi} corner {j}: index {n}")
                return fails
            truth_node[n] = tuple(mxyz[m])
    R = info["radius"]

    for tag, vals in (("first-access", snap), ("final", final)):
        # ---- ranges
        for kind in ("node", "edge", "face"):
            ctx.ev("ranges")
            lon, lat = vals[f"{kind}_lon"], vals[f"{kind}_lat"]
            if tag == "first-access":
                lon, lat = first[f"{kind}_lon"], first[f"{kind}_lat"]
            if np.any(~np.isfinite(lon)) or np.any(~np.isfinite(lat)):
                bad("ranges", f"{kind}:nan", f"{tag}: non-finite lon/lat")
                continue
            if lon.min() < -180 - 1e-12 or lon.max() > 180 + 1e-12:
                bad("ranges", f"{kind}_lon:out-of-range", f"{tag}: {kind}_lon in [{lon.min()}, {lon.max()}]")
            if lat.min() < -90 - 1e-12 or lat.max() > 90 + 1e-12:
                bad("ranges", f"{kind}_lat:out-of-range", f"{tag}: {kind}_lat in [{lat.min()}, {lat.max()}]")
        # ---- same point
        for kind in ("node", "edge", "face"):
            ctx.ev("same_point")
            lon, lat = vals[f"{kind}_lon"], vals[f"{kind}_lat"]
            x, y, z = vals[f"{kind}_x"], vals[f"{kind}_y"], vals[f"{kind}_z"]
            if not (len(lon) == len(lat) == len(x) == len(y) == len(z)):
                bad("same_point", f"{kind}:length", f"{tag}: lengths differ")
                continue
            for i in range(len(lon)):
                nrm = math.sqrt(x[i] ** 2 + y[i] ** 2 + z[i] ** 2)
                if not (nrm > 0) or not math.isfinite(nrm) or not math.isfinite(lon[i]) or not math.isfinite(lat[i]):
                    bad("same_point", f"{kind}:degenerate", f"{tag}: {kind} {i}: lonlat ({lon[i]}, {lat[i]}) xyz ({x[i]}, {y[i]}, {z[i]})")
                    break
                a = _pos_ll(lon[i], lat[i])
                b = (x[i] / nrm, y[i] / nrm, z[i] / nrm)
                if not _same(a, b):
                    bad("same_point", f"{kind}:differs", f"{tag}: {kind} {i}: lon/lat ({lon[i]!r}, {lat[i]!r}) vs xyz/|xyz| {b} (angle {math.degrees(S.angle(a, b)):.6f} deg)")
                    break

    # ---- node truth (final values)
    ctx.ev("truth_nodes")
    for n in range(n_node):
        if truth_node[n] is None:
            continue
        a = _pos_ll(final["node_lon"][n], final["node_lat"][n])
        if not _same(a, truth_node[n]):
            bad("truth_nodes", "lonlat-moved", f"node {n}: reports ({final['node_lon'][n]!r}, {final['node_lat'][n]!r}), source position {S.xyz2ll(truth_node[n])}")
            break

    # ---- unit length of derived Cartesian coordinates; after normalisation: everything
    for kind in ("node", "edge", "face"):
        derived = f"{kind}_xyz" not in info["supplied"]
        if derived or normalized:
            ctx.ev("unit_length")
            nrm = np.sqrt(final[f"{kind}_x"] ** 2 + final[f"{kind}_y"] ** 2 + final[f"{kind}_z"] ** 2)
            if np.any(np.abs(nrm - 1) > 1e-12):
                i = int(np.argmax(np.abs(nrm - 1)))
                bad("unit_length", f"{kind}:{'derived' if derived else 'after-normalize'}", f"{kind} {i}: |xyz| = {nrm[i]!r}")
        elif not normalized and (info.get("centre_radius", 1.0) if (kind != "node" and case["src"] == "topo-centres") else R) != 1.0:
            # supplied and not normalised: must still be what the source supplied (length R)
            Rk = info.get("centre_radius", 1.0) if (kind != "node" and case["src"] == "topo-centres") else R
            ctx.ev("supplied_kept")
            nrm = np.sqrt(final[f"{kind}_x"] ** 2 + final[f"{kind}_y"] ** 2 + final[f"{kind}_z"] ** 2)
            if np.any(np.abs(nrm / Rk - 1) > 1e-9):
                bad("supplied_kept", f"{kind}:length-changed", f"|xyz| no longer the supplied radius {Rk}: {nrm[:3]}")

    # ---- edge centres
    ctx.ev("centres_edge")
    pairs = [refmodel.edge_key(int(a), int(b)) for a, b in en]
    if info["edge_truth"] is not None:
        # supplied: same numbering as supplied, same positions.  Map supplied node ids -> grid node ids via positions
        # (MPAS / from_topology keep node numbering, so ids coincide)
        sup = info["edge_truth"]
        if len(sup) != len(pairs):
            bad("supplied_kept", "edge:count", f"{len(pairs)} edges vs {len(sup)} supplied")
        else:
            for e, (key, xyz_e) in enumerate(sup):
                if pairs[e] != key:
                    bad("supplied_kept", "edge:renumbered", f"edge {e}: nodes {pairs[e]} but source says {key}")
                    break
                a = _pos_ll(final["edge_lon"][e], final["edge_lat"][e])
                if not _same(a, tuple(xyz_e)):
                    bad("supplied_kept", "edge:moved", f"edge {e}: reports ({final['edge_lon'][e]!r}, {final['edge_lat'][e]!r}) supplied {S.xyz2ll(tuple(xyz_e))}")
                    break
    else:
        for e, (a, b) in enumerate(pairs):
            if truth_node[a] is None or truth_node[b] is None:
                continue
            mid = S.arc_midpoint(truth_node[a], truth_node[b])
            p = _pos_ll(final["edge_lon"][e], final["edge_lat"][e])
            if not _same(p, mid):
                bad("centroid_def", "edge:not-midpoint", f"edge {e} {(a, b)}: reports ({final['edge_lon'][e]!r}, {final['edge_lat'][e]!r}) midpoint {S.xyz2ll(mid)}")
                break

    # ---- face centres
    ctx.ev("centres_face")
    for fi, f in enumerate(mesh["faces"]):
        p = _pos_ll(final["face_lon"][fi], final["face_lat"][fi])
        if info["face_truth"] is not None:
            t = tuple(info["face_truth"][fi])
            if not _same(p, t):
                bad("supplied_kept", "face:moved", f"face {fi}: reports ({final['face_lon'][fi]!r}, {final['face_lat'][fi]!r}) supplied {S.xyz2ll(t)}")
                break
        else:
            m = mxyz[f].mean(axis=0)
            if np.linalg.norm(m) < 1e-6:
                continue
            t = tuple(m / np.linalg.norm(m))
            if not _same(p, t, 1e-7):
                bad("centroid_def", "face:not-centroid", f"face {fi}: reports ({final['face_lon'][fi]!r}, {final['face_lat'][fi]!r}) normalised mean of corners {S.xyz2ll(t)}")
                break

    # ---- normalisation changes lengths only
    if normalized:
        for kind, (x0, y0, z0) in pre_norm.items():
            ctx.ev("normalize_direction_only")
            x1, y1, z1 = post_norm[kind]
            n0 = np.sqrt(x0**2 + y0**2 + z0**2)
            n1 = np.sqrt(x1**2 + y1**2 + z1**2)
            d = np.stack([x0 / n0, y0 / n0, z0 / n0], 1) - np.stack([x1 / n1, y1 / n1, z1 / n1], 1)
            if np.any(~np.isfinite(d)) or np.abs(d).max() > 1e-9:
                bad("normalize_direction_only", f"{kind}:direction-changed", f"max change {np.abs(d).max()}")
            if np.any(np.abs(n1 - 1) > 1e-12):
                bad("normalize_direction_only", f"{kind}:not-unit-after", f"|xyz| after normalisation {n1[np.argmax(np.abs(n1 - 1))]!r}")
    if case.get("recentre") and not fails:
        how = case["recentre"]
        g.construct_face_centers(how)
        ctx.ev("same_point_after_recentre")
        lon, lat = np.asarray(g.face_lon.values, float), np.asarray(g.face_lat.values, float)
        x, y, z = (np.asarray(getattr(g, "face_" + c).values, float) for c in "xyz")
        if not (len(lon) == len(lat) == len(x) == len(y) == len(z) == len(mesh["faces"])):
            bad("same_point", f"face:length-after-{how}", f"after construct_face_centers({how!r}): lengths {len(lon)}, {len(lat)}, {len(x)}, {len(y)}, {len(z)} for {len(mesh['faces'])} faces")
            return fails
        if lon.size and (lon.min() < -180 - 1e-12 or lon.max() > 180 + 1e-12 or lat.min() < -90 - 1e-12 or lat.max() > 90 + 1e-12):
            bad("ranges", f"face:out-of-range-after-{how}", f"face_lon in [{lon.min()}, {lon.max()}], face_lat in [{lat.min()}, {lat.max()}]")
        for i in range(len(lon)):
            nrm = math.sqrt(x[i] ** 2 + y[i] ** 2 + z[i] ** 2)
            if not (nrm > 0) or not math.isfinite(nrm):
                bad("same_point", f"face:degenerate-after-{how}", f"face {i}: xyz ({x[i]}, {y[i]}, {z[i]})")
                break
            a, b = _pos_ll(lon[i], lat[i]), (x[i] / nrm, y[i] / nrm, z[i] / nrm)
            if not _same(a, b):
                bad("same_point", f"face:differs-after-{how}", f"after construct_face_centers({how!r}): face {i}: lon/lat ({lon[i]!r}, {lat[i]!r}) vs xyz/|xyz| {b} (angle {math.degrees(S.angle(a, b)):.6f} deg)")
                break
            # (centres whose xyz the source supplied may be kept as supplied: only derived ones must be unit length)
            if abs(nrm - 1) > 1e-12 and ("face_xyz" not in info["supplied"] or normalized):
                bad("unit_length", f"face:derived-after-{how}", f"face {i}: |xyz| = {nrm!r}")
                break
    return fails
