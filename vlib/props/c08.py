"""C08 — Reading from a grid never changes what any grid reports."""

import os

import numpy as np
from hypothesis import strategies as st

from ..core import sampled_from  # noqa: E402

from .. import build, meshgen, writers
from ..core import Failure, need

ID = "C08"
RULE = (
    "histories of 2-14 public read-only operations interleaved over a pool of 1-3 grids (sources: lon/lat topology arrays, "
    "topology arrays with supplied face centres or a supplied edge table (own numbering and node order, no face-edge table), Cartesian face vertices, an MPAS-like dataset with its own tables, a regional extract (isel) of one; hull / "
    "Voronoi / lat-lon / solid meshes incl. partial ones and faces across the antimeridian). Operations: reading any of 40 "
    "lazily computed attributes, compute_face_areas / calculate_total_face_area with any rule, order and coordinate kind, "
    "to_xarray in three formats, to_geodataframe / to_polycollection / to_linecollection with drawn arguments, get_ball_tree / "
    "get_kd_tree in every configuration plus a probe query, chunk, isel, subset.bounding_circle, a constant-latitude "
    "cross-section, get_dual, and data-array operations that read the grid (gradient, differences, integrate, topological means, remapping from and onto the grid, data exports, node selection). Each operation's result is compared at once with the result of the same call on a grid freshly "
    "built from the same source in the same process (the property's own reference); exported datasets may only add derived "
    "variables, each equal to what the fresh grid derives; every module-level value / container of the uxarray package (private names included) "
    "is deep-compared with their import-time snapshot after every case. Half of the shards run with "
    "NUMBA_DISABLE_JIT=1, pairwise on the same generated cases, and the recorded results of paired shards are compared. "
    "Non-trivial = an operation is judged after at least two other operations, or two grids are touched; distinct by case hash."
)
ASSUMPTIONS = [
    "the reference is a grid freshly built from the same source in the same process, as the property states; integers must match exactly, floats to 1e-12 relative",
    "trees are compared through a probe query (k nearest of three fixed points), geometry exports through their vertex arrays",
    "JIT-on and JIT-off shards are paired on identical cases; their results are compared with tolerance 1e-9 (different summation orders)",
    "chunk() is read-only as far as values are concerned: dask-backed variables are compared by value",
    "an operation that raises inside the library on the fresh grid must raise the same exception type on the used grid (and vice versa); such steps are counted as 'both-raise'",
    "dims / sizes / coordinates / connectivity list what the grid currently stores: like exports, they may list more than a fresh grid's (derived entries) but never less, with equal sizes where common",
]
BUDGET = {
    "quick": dict(shards=4, examples=100),
    "thorough": dict(shards=16, examples=600, wall_cap_s=1800),
}

ATTRS = [
    "n_node", "n_edge", "n_face", "n_max_face_nodes", "n_max_face_edges", "n_max_node_faces", "n_nodes_per_face",
    "node_lon", "node_lat", "node_x", "node_y", "node_z", "edge_lon", "edge_lat", "edge_x", "edge_y", "edge_z",
    "face_lon", "face_lat", "face_x", "face_y", "face_z", "face_node_connectivity", "edge_node_connectivity", "edge_node_z",
    "face_edge_connectivity", "face_face_connectivity", "edge_face_connectivity", "node_face_connectivity",
    "edge_node_distances", "edge_face_distances", "antimeridian_face_indices", "face_areas", "bounds", "face_jacobian",
    "hole_edge_indices", "dims", "sizes", "coordinates", "connectivity",
]
RULES = [["triangular", 1], ["triangular", 4], ["triangular", 8], ["triangular", 12], ["gaussian", 2], ["gaussian", 5], ["gaussian", 10]]
TREE_CFG = [["ball", "spherical", "haversine"], ["ball", "cartesian", "euclidean"], ["kd", "cartesian", "minkowski"], ["kd", "spherical", "minkowski"]]
OPS = ["attr", "attr", "attr", "attr", "areas", "total_area", "to_xarray", "gdf", "poly", "line", "tree", "chunk", "isel", "circle", "const_lat", "dual", "repr", "validate", "copy", "eq", "uxda", "uxda"]
# operations of data arrays that read the grid they are attached to (the arrays themselves are fresh each time)
UXDA = ["gradient", "difference_face", "difference_node", "integrate", "topological_mean_face", "topological_mean_edge", "remap_from", "remap_onto", "da_gdf", "da_poly", "isel_node"]


def shard_env(tier, k, n):
    return {"NUMBA_DISABLE_JIT": "1"} if k % 2 == 1 else {}


def shard_seed_group(tier, k, n):
    return k // 2  # shards 2j and 2j+1 see the same cases, with JIT on and off


@st.composite
def _source(draw, big):
    kind = draw(sampled_from(["topology", "topology", "topology-centres", "vertices-xyz", "mpas", "topology-edges", "mpas-subset"]))
    if kind in ("mpas", "topology-centres", "mpas-subset"):
        mesh = draw(meshgen.voronoi_mesh(6, 14 if big else 10, renumber=False))
    else:
        fam = draw(sampled_from(["hull", "hull", "latlon", "solid"]))
        if fam == "hull":
            mesh = draw(meshgen.hull_mesh(6, 18 if big else 10, partial=True))
        elif fam == "latlon":
            mesh = draw(meshgen.latlon_mesh_st())
        else:
            mesh = draw(meshgen.solid_mesh_st())
        mesh.pop("centers", None)
    return {"kind": kind, "mesh": mesh, "radius": draw(sampled_from([1.0, 1.0, 2.5, 6371.0])), "edge_seed": draw(st.integers(0, 999)), "drop": draw(st.integers(0, 50))}


@st.composite
def _op(draw, n_grids):
    op = draw(sampled_from(OPS))
    d = {"op": op, "g": draw(st.integers(0, n_grids - 1))}
    if op == "attr":
        d["name"] = draw(sampled_from(ATTRS))
    elif op in ("areas", "total_area"):
        d["rule"] = draw(sampled_from(RULES))
        d["latlon"] = draw(st.booleans())
    elif op == "to_xarray":
        d["fmt"] = draw(sampled_from(["ugrid", "ugrid", "exodus", "scrip"]))
    elif op in ("gdf", "poly", "line"):
        d["periodic"] = draw(sampled_from(["exclude", "split", "ignore"]))
        d["engine"] = draw(sampled_from(["spatialpandas", "geopandas"]))
        d["proj"] = draw(sampled_from([None, None, ["robinson", 0.0], ["mollweide", 60.0]]))
        if d["periodic"] == "split":
            d["proj"] = None
        d["cache"] = draw(st.booleans())
        d["override"] = draw(sampled_from([False, False, True]))
    elif op == "tree":
        d["cfg"] = draw(sampled_from(TREE_CFG))
        d["kind"] = draw(sampled_from(["nodes", "face centers", "edge centers"]))
        d["reconstruct"] = draw(sampled_from([False, False, True]))
    elif op == "chunk":
        d["n"] = draw(st.integers(1, 4))
    elif op == "isel":
        d["a"] = draw(st.integers(0, 50))
    elif op == "circle":
        d["center"] = [draw(st.floats(-180, 180)), draw(st.floats(-80, 80))]
        d["r"] = draw(st.floats(20.0, 120.0))
    elif op == "const_lat":
        d["lat"] = draw(st.floats(-70.0, 70.0))
    elif op == "uxda":
        d["what"] = draw(sampled_from(UXDA))
        d["ct"] = draw(sampled_from(["spherical", "cartesian"]))
    return d


@st.composite
def _case(draw, tier):
    big = tier != "quick"
    srcs = draw(st.lists(_source(big), min_size=1, max_size=3))
    ops = draw(st.lists(_op(len(srcs)), min_size=2, max_size=14))
    # cache keys are exercised by near-repeats: an earlier operation on the same grid with exactly one argument changed
    out = []
    for o in ops:
        out.append(o)
        variable = [p for p in out if p["op"] in ("gdf", "poly", "line", "tree", "areas", "total_area", "to_xarray")]
        if variable and draw(st.integers(0, 2)) == 0:
            base = dict(variable[draw(st.integers(0, len(variable) - 1))])
            if base["op"] in ("gdf", "poly", "line"):
                field = draw(sampled_from(["engine", "periodic", "proj", "same"]))
                if field == "engine":
                    base["engine"] = "geopandas" if base["engine"] == "spatialpandas" else "spatialpandas"
                elif field == "periodic":
                    base["periodic"] = draw(sampled_from([p for p in ("exclude", "ignore") if p != base["periodic"]] or ["exclude"]))
                elif field == "proj" and base["periodic"] != "split":
                    base["proj"] = None if base["proj"] else ["robinson", 0.0]
                base["cache"], base["override"] = True, False
            elif base["op"] == "tree":
                # the same tree asked for another element kind, or another configuration for the same kind
                if draw(st.booleans()):
                    base["kind"] = draw(sampled_from([k_ for k_ in ("nodes", "face centers", "edge centers") if k_ != base["kind"]]))
                else:
                    base["cfg"] = draw(sampled_from(TREE_CFG))
                base["reconstruct"] = False
            elif base["op"] in ("areas", "total_area"):
                base["rule"] = draw(sampled_from(RULES))
            else:
                base["fmt"] = draw(sampled_from(["ugrid", "exodus", "scrip"]))
            out.append(base)
    return {"sources": srcs, "ops": out[:20]}


def strategy(tier, excl):
    return _case(tier)


def classify(case):
    labs = [f"grids:{len(case['sources'])}", f"ops:{min(len(case['ops']), 14)}"]
    for s in case["sources"]:
        labs.append("source:" + s["kind"])
    touched = set()
    for o in case["ops"]:
        labs.append("op:" + o["op"] + (":" + o["what"] if o["op"] == "uxda" else ""))
        touched.add(o["g"])
    if len(touched) > 1:
        labs.append("interleaved-grids")
    return sorted(set(labs)), (len(case["ops"]) >= 3 or len(touched) > 1)


# ----------------------------------------------------------------------------- module globals
_SNAP = None


def _snap_modules():
    """Every plain value / container bound at module level anywhere in the uxarray package (private names too:
    templates and caches shared by all grids live there); dunder attributes (warning registries etc.) are skipped."""
    import sys

    out = {}
    for mname, mod in sorted(sys.modules.items()):
        if mod is None or not (mname == "uxarray" or mname.startswith("uxarray.")):
            continue
        for name, v in sorted(vars(mod).items()):
            if name.startswith("__"):
                continue
            if isinstance(v, (dict, list, tuple, str, int, float, set, frozenset)) or isinstance(v, np.generic):
                out[f"{mname}.{name}"] = _freeze(v)
    return out


def _freeze(v):
    if isinstance(v, dict):
        return ("dict", tuple(sorted((str(k), _freeze(x)) for k, x in v.items())))
    if isinstance(v, (list, tuple)):
        return (type(v).__name__, tuple(_freeze(x) for x in v))
    if isinstance(v, (set, frozenset)):
        return ("set", tuple(sorted(map(repr, v))))
    if isinstance(v, np.ndarray):
        return ("nd", str(v.dtype), v.shape, v.tobytes())
    return (type(v).__name__, repr(v))


def setup(ctx):
    global _SNAP
    build.ux()
    _SNAP = _snap_modules()


# ----------------------------------------------------------------------------- building and observing
def _build_source(src):
    ux = build.ux()
    mesh = src["mesh"]
    if src["kind"] == "topology":
        return build.grid_from_mesh(mesh)
    if src["kind"] == "topology-centres":
        c = np.asarray(mesh["centers"], float)
        return build.grid_from_mesh(mesh, face_lon=c[:, 0].copy(), face_lat=c[:, 1].copy())
    if src["kind"] == "vertices-xyz":
        INT_DTYPE, FILL = build.consts()
        xyz = meshgen.mesh_xyz(mesh) * src.get("radius", 1.0)  # Cartesian sources need not be on the unit sphere
        width = max(len(f) for f in mesh["faces"])
        arr = np.full((len(mesh["faces"]), width, 3), float(FILL))
        for i, f in enumerate(mesh["faces"]):
            arr[i, : len(f)] = [xyz[k] for k in f]
        return ux.Grid.from_face_vertices(arr, latlon=False)
    if src["kind"] == "topology-edges":
        # a source that ships its own edge table (own numbering, either node of an edge first) but no face-edge table
        INT_DTYPE, FILL = build.consts()
        edges = writers.numbered_edges(mesh, src.get("edge_seed", 0))
        en = np.array([(b, a) if (k * 7 + src.get("edge_seed", 0)) % 3 == 0 else (a, b) for k, (a, b) in enumerate(edges)], dtype=INT_DTYPE)
        return build.grid_from_mesh(mesh, edge_node_connectivity=en)
    ds, _ = writers.mpas_dataset(mesh, radius=src.get("radius", 1.0), edge_perm_seed=src.get("edge_seed", 0))
    g = ux.open_grid(ds)
    if src["kind"] == "mpas-subset" and g.n_face >= 4:
        # the source is a regional extract of an MPAS grid: it inherits the parent's edge numbering and orientation
        d = src.get("drop", 0) % g.n_face
        return g.isel(n_face=[k for k in range(g.n_face) if k not in (d, (d + 1) % g.n_face)])
    return g


def _norm(v):
    """Result of an operation -> comparable plain structure."""
    import xarray as xr

    if isinstance(v, xr.DataArray):
        return ("da", tuple(v.dims), _norm(np.asarray(v.values)))
    if isinstance(v, xr.Dataset):
        return ("ds", {str(k): _norm(v[k]) for k in v.variables})
    if isinstance(v, np.ndarray):
        if v.dtype == object:
            return ("obj", [_norm(x) for x in v.tolist()])
        return ("nd", str(v.dtype), v.shape, v.copy())
    if isinstance(v, (list, tuple)):
        return ("seq", [_norm(x) for x in v])
    if isinstance(v, (set, frozenset)):
        return ("set", sorted(map(str, v)))
    if isinstance(v, dict) or hasattr(v, "items") and hasattr(v, "keys"):
        return ("map", {str(k): _norm(x) for k, x in dict(v).items()})
    if isinstance(v, (np.generic,)):
        return ("nd", str(v.dtype), (), np.asarray(v))
    if isinstance(v, (int, float, str, bool, type(None))):
        return ("py", v)
    return ("repr", type(v).__name__)


def _diff(a, b, path="", rtol=1e-12):
    if a[0] != b[0]:
        return f"{path}: kind {a[0]} vs {b[0]}"
    k = a[0]
    if k == "da":
        if a[1] != b[1]:
            return f"{path}: dims {a[1]} vs {b[1]}"
        return _diff(a[2], b[2], path, rtol)
    if k == "ds":
        return None  # datasets are compared by the caller (superset rule)
    if k == "nd":
        if a[2] != b[2]:
            return f"{path}: shape {a[2]} vs {b[2]}"
        x, y = a[3], b[3]
        if x.dtype.kind in "iub" or y.dtype.kind in "iub":
            if a[1] != b[1]:
                return f"{path}: dtype {a[1]} vs {b[1]}"
            if not np.array_equal(x, y):
                i = np.argwhere(x != y)[0]
                return f"{path}: value at {tuple(i)}: {x[tuple(i)]} vs fresh {y[tuple(i)]}"
            return None
        if x.dtype.kind == "f":
            if a[1] != b[1]:
                return f"{path}: dtype {a[1]} vs {b[1]}"
            ok = np.isclose(x, y, rtol=rtol, atol=1e-14, equal_nan=True)
            if not np.all(ok):
                i = np.argwhere(~ok)[0]
                return f"{path}: value at {tuple(i)}: {x[tuple(i)]!r} vs fresh {y[tuple(i)]!r}"
            return None
        return None if np.array_equal(x, y) else f"{path}: differs"
    if k in ("seq", "obj"):
        if len(a[1]) != len(b[1]):
            return f"{path}: length {len(a[1])} vs {len(b[1])}"
        for i, (x, y) in enumerate(zip(a[1], b[1])):
            r = _diff(x, y, f"{path}[{i}]", rtol)
            if r:
                return r
        return None
    if k == "map":
        if set(a[1]) != set(b[1]):
            return f"{path}: keys {sorted(a[1])} vs {sorted(b[1])}"
        for kk in a[1]:
            r = _diff(a[1][kk], b[1][kk], f"{path}.{kk}", rtol)
            if r:
                return r
        return None
    return None if a[1:] == b[1:] else f"{path}: {a[1:]} vs fresh {b[1:]}"


def _projection(desc):
    import cartopy.crs as ccrs

    if not desc:
        return None
    return {"robinson": ccrs.Robinson, "mollweide": ccrs.Mollweide}[desc[0]](central_longitude=float(desc[1]))


PROBES = np.array([[10.0, 20.0], [-170.0, -45.0], [100.0, 80.0]])


def _apply(g, o):
    """Run operation o on grid g and return a comparable result."""
    from .. import sphere as S

    op = o["op"]
    if op == "attr":
        return _norm(getattr(g, o["name"]))
    if op == "areas":
        a, j = g.compute_face_areas(quadrature_rule=o["rule"][0], order=o["rule"][1], latlon=o["latlon"])
        return _norm([np.asarray(a), np.asarray(j)])
    if op == "total_area":
        return _norm(np.asarray(g.calculate_total_face_area(quadrature_rule=o["rule"][0], order=o["rule"][1])))
    if op == "to_xarray":
        ds = g.to_xarray(o["fmt"])
        out = {}
        for k in ds.variables:
            if k in ("time_whole", "qa_records"):
                continue  # Exodus header: creation date and time
            out[str(k)] = _norm(ds[k])
        return ("ds", out)
    if op in ("gdf", "poly", "line"):
        kw = dict(periodic_elements=o["periodic"], projection=_projection(o["proj"]), cache=o["cache"], override=o["override"])
        if op == "gdf":
            gdf = need(g.to_geodataframe(engine=o["engine"], **kw), "columns", "Grid.to_geodataframe")
            rows = []
            for gm in gdf["geometry"]:
                gm = gm.to_shapely() if hasattr(gm, "to_shapely") else gm
                parts = list(gm.geoms) if gm.geom_type == "MultiPolygon" else [gm]
                rows.append([np.asarray(p.exterior.coords) for p in parts])
            return _norm([type(gdf).__module__.split(".")[0], list(gdf.columns), rows])
        if op == "poly":
            pc = need(g.to_polycollection(**kw), "get_paths", "Grid.to_polycollection")
            return _norm([np.asarray(p.vertices) for p in pc.get_paths()])
        lc = need(g.to_linecollection(**kw), "get_segments", "Grid.to_linecollection")
        return _norm([np.asarray(s) for s in lc.get_segments()])
    if op == "tree":
        t, system, metric = o["cfg"]
        getter = g.get_ball_tree if t == "ball" else g.get_kd_tree
        tree = need(getter(coordinates=o["kind"], coordinate_system=system, distance_metric=metric, reconstruct=o["reconstruct"]), "query", f"Grid.get_{t}_tree")
        n = {"nodes": g.n_node, "face centers": g.n_face, "edge centers": g.n_edge}[o["kind"]]
        k = min(3, n)
        if system == "cartesian":
            q = np.array([S.ll2xyz(a, b) for a, b in PROBES])
        elif t == "ball":
            q = PROBES
        else:
            q = PROBES[:, ::-1]
        d, ind = tree.query(q, k=k)
        return _norm([np.asarray(d, float), np.asarray(ind), [tree.coordinates, tree.coordinate_system, tree.distance_metric]])
    if op == "chunk":
        g.chunk(n_node=o["n"], n_edge=o["n"], n_face=o["n"])
        return _norm([np.asarray(g.node_lon.values), np.asarray(g.face_node_connectivity.values)])
    if op == "isel":
        idx = sorted({o["a"] % g.n_face, (o["a"] * 7 + 1) % g.n_face})
        sub = g.isel(n_face=idx)
        return _norm([np.asarray(sub.face_node_connectivity.values), np.asarray(sub.node_lon.values), np.asarray(sub.node_lat.values)])
    if op == "circle":
        try:
            sub = g.subset.bounding_circle(tuple(o["center"]), o["r"], element="face centers")
        except ValueError:
            return ("py", "empty")
        return _norm([np.asarray(sub._ds["subgrid_face_indices"].values), np.asarray(sub.node_lon.values)])
    if op == "const_lat":
        return _norm(np.asarray(g.get_faces_at_constant_latitude(o["lat"])))
    if op == "repr":
        repr(g)  # an inventory view (lists what is stored): executed as part of the history, not compared
        return ("py", "repr-called")
    if op == "validate":
        import contextlib
        import io

        with contextlib.redirect_stdout(io.StringIO()):
            return _norm(bool(g.validate()))
    if op == "copy":
        c = g.copy()
        return _norm([np.asarray(c.face_node_connectivity.values), np.asarray(c.node_lon.values), np.asarray(c.node_lat.values), bool(c == g)])
    if op == "uxda":
        ux = build.ux()
        w = o["what"]
        fda = ux.UxDataArray(np.arange(g.n_face, dtype=float) * 1.5 - 2.0, dims=["n_face"], uxgrid=g, name="f")
        nda = ux.UxDataArray(np.arange(g.n_node, dtype=float) * 0.5 + 1.0, dims=["n_node"], uxgrid=g, name="n")
        if w == "gradient":
            return _norm(np.asarray(fda.gradient().values))
        if w == "difference_face":
            return _norm(np.asarray(fda.difference(destination="edge").values))
        if w == "difference_node":
            return _norm(np.asarray(nda.difference(destination="edge").values))
        if w == "integrate":
            return _norm(np.asarray(fda.integrate().values))
        if w.startswith("topological_mean"):
            return _norm(np.asarray(nda.topological_mean(destination=w.rsplit("_", 1)[1]).values))
        if w in ("remap_from", "remap_onto"):
            other = build.grid_from_mesh(meshgen.cubed_sphere(2))
            if w == "remap_from":
                return _norm(np.asarray(fda.remap.nearest_neighbor(other, remap_to="nodes", coord_type=o["ct"]).values))
            oda = ux.UxDataArray(np.arange(other.n_face, dtype=float), dims=["n_face"], uxgrid=other, name="o")
            return _norm(np.asarray(oda.remap.inverse_distance_weighted(g, remap_to="face centers", coord_type=o["ct"], k=3).values))
        if w == "da_gdf":
            gdf = need(fda.to_geodataframe(), "columns", "UxDataArray.to_geodataframe")
            return _norm([list(gdf.columns), np.asarray(gdf["f"], float)])
        if w == "da_poly":
            pc = need(fda.to_polycollection(), "get_paths", "UxDataArray.to_polycollection")
            return _norm([np.asarray(p.vertices) for p in pc.get_paths()] + [np.asarray(pc.get_array(), float)])
        if w == "isel_node":
            r = nda.isel(n_node=[0, g.n_node - 1])
            return _norm([np.asarray(r.values), np.asarray(r.uxgrid.face_node_connectivity.values)])
        raise AssertionError(w)
    if op == "eq":
        return _norm([bool(g == g), bool(g != g)])
    if op == "dual":
        try:
            d = g.get_dual()
        except RuntimeError:
            return ("py", "duplicate-nodes")
        return _norm([np.asarray(d.face_node_connectivity.values), np.asarray(d.node_lon.values), np.asarray(d.node_lat.values)])
    raise AssertionError(op)


INVENTORY = ("dims", "sizes", "coordinates", "connectivity")
FINAL_SWEEP = ["node_x", "node_y", "node_z", "node_lon", "node_lat", "face_node_connectivity", "n_nodes_per_face", "face_lon", "face_lat",
               "face_x", "face_z", "edge_node_connectivity", "edge_lon", "edge_x", "face_areas", "edge_face_distances", "edge_node_distances",
               "edge_face_connectivity", "face_edge_connectivity", "node_face_connectivity", "face_face_connectivity", "hole_edge_indices",
               "antimeridian_face_indices"]


def _inv(n):
    """Inventory view (dims / sizes / coordinates / connectivity) -> {name: value or None}."""
    if n[0] == "map":
        return {k: (v[1] if v[0] == "py" else repr(v)) for k, v in n[1].items()}
    if n[0] == "set":
        return {k: None for k in n[1]}
    if n[0] == "seq":
        return {(x[1] if x[0] == "py" else repr(x)): None for x in n[1]}
    return {repr(n): None}


def _apply_or_raise(g, o):
    """An operation that fails in the library is an observation too: ('raises', type).  Exceptions that never
    enter uxarray are harness bugs and propagate."""
    from ..core import innermost_lib_frame
    from ..runner import repo_root

    try:
        return _apply(g, o)
    except Exception as e:  # noqa
        if innermost_lib_frame(e.__traceback__, repo_root()) is None:
            raise
        return ("raises", type(e).__name__)


def _jsonable(n):
    k = n[0]
    if k == "nd":
        return ["nd", n[1], list(n[2]), np.asarray(n[3]).ravel().tolist() if np.asarray(n[3]).size <= 400 else "big"]
    if k == "da":
        return ["da", list(n[1]), _jsonable(n[2])]
    if k in ("seq", "obj"):
        return [k, [_jsonable(x) for x in n[1]]]
    if k in ("map", "ds"):
        return [k, {kk: _jsonable(v) for kk, v in n[1].items()}]
    if k == "py":
        return ["py", n[1]]
    return [k, str(n[1:])]


def run_case(case, ctx):
    from ..core import case_hash

    fails = []
    jit = "nojit" if os.environ.get("NUMBA_DISABLE_JIT") else "jit"
    grids = [_build_source(s) for s in case["sources"]]
    history = []
    record = []
    for si, o in enumerate(case["ops"]):
        gi = o["g"] % len(grids)
        g = grids[gi]
        tag = o["op"] + (":" + o["name"] if o["op"] == "attr" else (":" + o["fmt"] if o["op"] == "to_xarray" else (":" + o["what"] if o["op"] == "uxda" else "")))
        hist = "first" if not history else ("after-" + history[-1])
        site = f"{tag}:{case['sources'][gi]['kind']}:{hist}:{jit}"
        got = _apply_or_raise(g, o)
        fresh_grid = _build_source(case["sources"][gi])
        exp = _apply_or_raise(fresh_grid, o)
        if got[0] == "raises" or exp[0] == "raises":
            ctx.ev("equals_fresh")
            if got != exp:
                fails.append(Failure("equals_fresh", site, "raises-only-on-one", f"step {si}: {tag}: this grid -> {got[1] if got[0] == 'raises' else 'a result'}, fresh grid -> {exp[1] if exp[0] == 'raises' else 'a result'}; history on this pool: {history}"))
                return fails
            ctx.label("both-raise:" + got[1])
            history.append(f"{tag}@{gi}")
            continue
        ctx.ev("equals_fresh")
        if o["op"] == "attr" and o["name"] in INVENTORY:
            # inventory views of the stored variables follow the export rule: a superset of the fresh grid's, equal where common
            gk, ek = _inv(got), _inv(exp)
            if not set(ek) <= set(gk):
                fails.append(Failure("equals_fresh", site, "inventory-lost-entry", f"step {si}: {tag}: fresh grid lists {sorted(ek)}, this grid {sorted(gk)}"))
                return fails
            bad = [k for k in ek if ek[k] != gk[k]]
            if bad:
                fails.append(Failure("equals_fresh", site, "inventory-value", f"step {si}: {tag}: entries {bad} differ: {[gk[k] for k in bad]} vs fresh {[ek[k] for k in bad]}"))
                return fails
        elif got[0] == "ds" and exp[0] == "ds":
            # superset rule: the used grid's export may also contain derived variables, each holding the fresh value
            for k, v in exp[1].items():
                if k not in got[1]:
                    fails.append(Failure("equals_fresh", site, "export-lost-variable", f"step {si}: a fresh grid's {tag} contains {k!r}, this grid's does not"))
                    return fails
                r = _diff(got[1][k], v, k)
                if r:
                    fails.append(Failure("equals_fresh", site, "export-value", f"step {si}: {tag}: {r} (history: {history})"))
                    return fails
            if o["fmt"] == "ugrid":
                for k, v in got[1].items():
                    if k in exp[1] or k == "grid_topology" or k.startswith("subgrid_"):
                        continue
                    if hasattr(type(fresh_grid), k):
                        r = _diff(v, _norm(getattr(fresh_grid, k)), k)
                        if r:
                            fails.append(Failure("equals_fresh", site, "export-derived-value", f"step {si}: exported derived variable {r} (history: {history})"))
                            return fails
        else:
            r = _diff(got, exp, tag)
            if r:
                fails.append(Failure("equals_fresh", site, "differs-from-fresh", f"step {si}: {r}; history on this pool: {history}"))
                return fails
        history.append(f"{tag}@{gi}")
        if len(history) > 6:
            history = history[-6:]
        if len(record) < 14:
            record.append(_jsonable(got))
    # ---- "followed by any observation": a final sweep over the basic attributes of every grid of the pool,
    # each compared with its value on a grid built afresh for that one read
    for gi, g in enumerate(grids):
        for name in FINAL_SWEEP:
            o = {"op": "attr", "name": name, "g": gi}
            got = _apply_or_raise(g, o)
            exp = _apply_or_raise(_build_source(case["sources"][gi]), o)
            ctx.ev("equals_fresh")
            if got[0] == "raises" or exp[0] == "raises":
                if got != exp:
                    fails.append(Failure("equals_fresh", f"attr:{name}:{case['sources'][gi]['kind']}:final-sweep:{jit}", "raises-only-on-one", f"final sweep: {name}: this grid -> {got[:2]}, fresh grid -> {exp[:2]}; last operations {history}"))
                    return fails
                continue
            r = _diff(got, exp, name)
            if r:
                fails.append(Failure("equals_fresh", f"attr:{name}:{case['sources'][gi]['kind']}:final-sweep:{jit}", "differs-from-fresh", f"final sweep on grid {gi} after {[o_['op'] + (':' + o_.get('name', '')) for o_ in case['ops']]}: {r}"))
                return fails
    ctx.ev("module_globals_unchanged")
    now = _snap_modules()
    for k, v in _SNAP.items():
        if now.get(k) != v:
            fails.append(Failure("module_globals_unchanged", "uxarray-module-globals", "changed", f"{k} differs from its import-time value after ops {[o['op'] for o in case['ops']]}"))
            break
    # (modules imported lazily after the snapshot bring their names with them: only a new name in a module that
    # had already been loaded counts)
    known_mods = {k.rsplit(".", 1)[0] for k in _SNAP}
    for k in now:
        if k not in _SNAP and k.rsplit(".", 1)[0] in known_mods:
            fails.append(Failure("module_globals_unchanged", "uxarray-module-globals", "added", f"{k} appeared"))
            break
    recs = ctx.extra.setdefault("paired_records", {})
    if len(recs) < 25:
        recs[case_hash(case)] = record
    return fails


def cross_shard_check(results):
    """Called by the runner with every shard's result: shards 2j (JIT) and 2j+1 (no JIT) ran the same cases."""
    out = []
    by = {r["shard"]: r for r in results}
    compared = 0
    for k in sorted(by):
        if k % 2 == 0 and k + 1 in by:
            a = by[k]["extra"].get("paired_records", {})
            b = by[k + 1]["extra"].get("paired_records", {})
            for h in a:
                if h in b:
                    compared += 1
                    d = _jdiff(a[h], b[h], "op")
                    if d:
                        out.append({"failure": Failure("jit_off_equals_jit_on", "paired-shards", "differs", f"case {h}: {d}").to_json(), "case_hash": h, "shard": k})
                        break
    return out, compared


def _jdiff(a, b, path):
    if isinstance(a, list) and isinstance(b, list):
        if a and a[0] == "nd" and b and b[0] == "nd":
            if a[1] != b[1] or a[2] != b[2]:
                return f"{path}: {a[1]}{a[2]} vs {b[1]}{b[2]}"
            if a[3] == "big" or b[3] == "big":
                return None
            try:
                x, y = np.asarray(a[3], float), np.asarray(b[3], float)
            except (ValueError, TypeError):
                return None if a[3] == b[3] else f"{path}: {str(a[3])[:80]} vs {str(b[3])[:80]}"
            if x.shape != y.shape or not np.allclose(x, y, rtol=1e-9, atol=1e-12, equal_nan=True):
                return f"{path}: values differ between JIT on and off: {a[3][:5]} vs {b[3][:5]}"
            return None
        if len(a) != len(b):
            return f"{path}: length {len(a)} vs {len(b)}"
        for i, (x, y) in enumerate(zip(a, b)):
            r = _jdiff(x, y, f"{path}[{i}]")
            if r:
                return r
        return None
    if isinstance(a, dict) and isinstance(b, dict):
        for k in a:
            if k in b:
                r = _jdiff(a[k], b[k], f"{path}.{k}")
                if r:
                    return r
        return None
    return None if a == b else f"{path}: {a!r} vs {b!r}"
