"""C09 — Subsets and cross-sections are faithful, fully functional restrictions."""

import math

import numpy as np
from hypothesis import strategies as st

from ..core import sampled_from  # noqa: E402

from .. import build, meshgen, refmodel, writers
from .. import sphere as S
from ..core import Failure

ID = "C09"
RULE = (
    "source grid (hull / Voronoi / lat-lon / solid meshes built from topology arrays, or an MPAS-like source shipping its own "
    "edge tables) x a drawn set of derived quantities materialised first x one selection: isel by face / node / edge indices "
    "(unsorted, scalar, single, all), bounding_box (incl. antimeridian-spanning, with nodes planted on lon = +-180), "
    "bounding_circle, nearest_neighbor (all three element kinds), constant-latitude cross-section (incl. a latitude equal to a "
    "node's) x optional face- / node- / edge-centred data of rank 1-3 x numba thread count in {1, 2, 4, 16}. Oracles: the "
    "selected faces are exactly the reference selection computed from the mesh (set-based incidence, my own spherical "
    "distances), no duplicates, result face i has the corner positions of source face subgrid_face_indices[i]; sliced data "
    "sit on the same physical elements (matched geometrically); every derived connectivity / geometry of the result equals "
    "what a grid freshly built from the result's own faces reports (numbering-free comparison). Sources may carry Cartesian coordinates on a sphere of radius 2.5 or 6371229 (MPAS sphere_radius / node_x,y,z next to lon/lat). Non-trivial = the selection "
    "is a proper subset and (something was materialised before slicing or data are attached); distinct by case hash."
)
ASSUMPTIONS = [
    "index selections are sets (no repeated indices); reference points closer than 1e-6 deg to a box / circle boundary make the case give no verdict, except lon = +-180 inside an antimeridian-spanning box, which is interior",
    "nearest_neighbor with the k-th and (k+1)-th distance within 1e-9 rad gives no verdict",
    "cross-section: an edge counts when its end nodes are strictly on opposite sides of the parallel, decided on the node latitudes given to the grid: a node whose latitude is the same double as the requested one is on neither side; nodes within 1e-9 deg without being equal make the face optional",
    "fully functional: compared with a grid built by from_topology from the result's own node coordinates and faces (fresh grids are judged by C02-C05)",
    "thread interleavings cannot be controlled; only the thread count is varied",
]
BUDGET = {
    "quick": dict(shards=4, examples=250, numba_threads=16),
    "thorough": dict(shards=16, examples=2000, wall_cap_s=1800, numba_threads=16),
}
MATERIALISE = ["edge_node_connectivity", "face_edge_connectivity", "edge_face_connectivity", "node_face_connectivity", "face_face_connectivity", "face_lon", "edge_lon", "face_areas", "node_x", "edge_node_z", "n_nodes_per_face", "bounds", "hole_edge_indices", "edge_node_distances", "edge_face_distances", "antimeridian_face_indices"]
SELECTIONS = ["isel_face", "isel_node", "isel_edge", "bbox", "bbox", "bbox", "circle", "nn", "const_lat", "const_lat"]
ELEMENTS = ["nodes", "face centers", "edge centers"]


@st.composite
def _case(draw, tier):
    big = tier != "quick"
    src = draw(sampled_from(["topology", "topology", "mpas"]))
    if src == "mpas":
        mesh = draw(meshgen.voronoi_mesh(8, 20 if big else 12, renumber=False))
    else:
        fam = draw(sampled_from(["hull", "hull", "latlon", "solid"]))
        if fam == "hull":
            mesh = draw(meshgen.hull_mesh(6, 26 if big else 14, partial=True))
        elif fam == "latlon":
            mesh = draw(meshgen.latlon_mesh_st())
        else:
            mesh = draw(meshgen.solid_mesh_st())
        mesh.pop("centers", None)
    sel = draw(sampled_from(SELECTIONS))
    planted_box = None
    am_nodes = [p for p in mesh["nodes"] if abs(abs(p[0]) - 180.0) < 1e-12 and abs(p[1]) < 85.0]
    cand = [i for i, p in enumerate(mesh["nodes"]) if abs(p[1]) < 80.0]
    if sel == "bbox" and not am_nodes and cand and src != "mpas" and draw(st.integers(0, 3)) > 0:
        # construction: turn the whole mesh about the polar axis so that one node sits exactly on the antimeridian
        # (stored as +180 or -180)
        k = cand[draw(st.integers(0, len(cand) - 1))]
        delta = 180.0 - mesh["nodes"][k][0]
        edge = draw(sampled_from([180.0, 180.0, -180.0]))
        nodes = [[(((p[0] + delta) + 180.0) % 360.0) - 180.0, p[1]] for p in mesh["nodes"]]
        nodes[k][0] = edge
        mesh = dict(mesh, nodes=nodes)
        am_nodes = [p for p in nodes if abs(abs(p[0]) - 180.0) < 1e-12 and abs(p[1]) < 85.0]
    planted_element = None
    if sel == "bbox" and am_nodes and draw(st.integers(0, 3)) > 0:
        # a box spanning the antimeridian drawn around a node that sits exactly on it, or around the centre of an
        # edge lying along it (whose derived longitude is +180 or -180 depending on a signed zero)
        nd = am_nodes[draw(st.integers(0, len(am_nodes) - 1))]
        on_am = {i for i, p in enumerate(mesh["nodes"]) if abs(abs(p[0]) - 180.0) < 1e-12 and abs(p[1]) < 85.0}
        am_edges = sorted({tuple(sorted((f[j], f[(j + 1) % len(f)]))) for f in mesh["faces"] for j in range(len(f)) if f[j] in on_am and f[(j + 1) % len(f)] in on_am})
        if am_edges and draw(st.booleans()):
            a_, b_ = am_edges[draw(st.integers(0, len(am_edges) - 1))]
            nd = [180.0, 0.5 * (mesh["nodes"][a_][1] + mesh["nodes"][b_][1])]
            planted_element = "edge centers"
        # half of the boxes are small, so that the node on the antimeridian is the only corner of its faces inside
        hi_ = 3.0 if draw(st.booleans()) else 40.0
        a, b = draw(st.floats(0.5, hi_)), draw(st.floats(0.5, hi_))
        c, dd = draw(st.floats(0.5, min(hi_, 30.0))), draw(st.floats(0.5, min(hi_, 30.0)))
        planted_box = [180.0 - a, a + b, max(-89.0, nd[1] - c), c + dd]
    case = {
        "mesh": mesh,
        "source": src,
        "materialise": sorted(draw(st.sets(sampled_from(MATERIALISE), max_size=4))),
        "sel": sel,
        "element": draw(sampled_from(ELEMENTS)),
        "idx_mode": draw(sampled_from(["some", "some", "scalar", "single", "all", "reversed"])),
        "idx_seed": draw(st.integers(0, 10**6)),
        "lon0": draw(sampled_from([-180.0, 170.0, 100.0, 0.0, -90.0]) | st.floats(-180, 180) | st.floats(120.0, 179.5) | st.floats(120.0, 179.5)),
        "lon_w": draw(st.floats(20.0, 300.0) | st.floats(5.0, 120.0)),
        "lat0": draw(st.floats(-85.0, 40.0)),
        "lat_h": draw(st.floats(20.0, 120.0)),
        "center": [draw(sampled_from([180.0, -180.0, 0.0]) | st.floats(-180, 180)), draw(sampled_from([90.0, -90.0, 0.0]) | st.floats(-90, 90))],
        "r": draw(st.floats(5.0, 100.0)),
        "k": draw(st.integers(1, 6)),
        "lat": draw(st.floats(-80.0, 80.0) | sampled_from([89.995, -89.995, 89.9, -89.9, 0.0])),
        "lat_from_node": draw(sampled_from([None, None, 0, 1, 2])),
        # a hair above / below a node's latitude (not equal to it)
        # ... or a little beyond it (inside the poleward bulge of a wide face's great-circle sides)
        "lat_offset": draw(sampled_from([0.0, 0.0, 1e-7, -1e-7, 3e-6, -3e-6, 0.05, -0.05, 0.3, -0.3])),
        "data": draw(sampled_from([None, "face", "face", "node", "edge"])),
        "lead": draw(st.lists(st.integers(1, 3), max_size=2)),
        "threads": draw(sampled_from([1, 2, 4, 16])),
        "via": draw(sampled_from(["grid", "uxda"])),
        # radius of the sphere the source's Cartesian coordinates lie on (MPAS: sphere_radius; topology arrays: node_x/y/z
        # supplied next to lon/lat); None = lon/lat only (topology) / unit sphere (MPAS)
        "radius": draw(sampled_from([None, None, None, 2.5, 6371229.0])),
    }
    if sel == "const_lat" and draw(st.integers(0, 2)) == 0:
        # the latitude extent of every face is the derived quantity a cross-section is most likely to lean on
        case["materialise"] = sorted(set(case["materialise"]) | {"bounds"})
    if planted_box:
        case["planted"] = "small" if hi_ == 3.0 else "large"
        case["lon0"], case["lon_w"], case["lat0"], case["lat_h"] = planted_box
        case["element"] = planted_element or draw(sampled_from(["nodes", "nodes", "edge centers", "face centers"]))
    return case


def strategy(tier, excl):
    return _case(tier)


def classify(case):
    labs = ["sel:" + case["sel"], "source:" + case["source"], "cartesian-radius:" + str(case.get("radius")), f"materialised:{len(case['materialise'])}", "data:" + str(case["data"]), f"threads:{case['threads']}"]
    if case["sel"] in ("bbox", "circle", "nn"):
        labs.append("element:" + case["element"])
    if case["sel"].startswith("isel"):
        labs.append("idx:" + case["idx_mode"])
    if case["sel"] == "bbox" and _box(case)[0][0] > _box(case)[0][1]:
        labs.append("bbox-spans-antimeridian")
    if case.get("planted"):
        labs.append("bbox-around-node-on-antimeridian:" + case["planted"] + ":" + case["element"].split()[0])
    if case["sel"] == "const_lat" and case["lat_from_node"] is not None:
        labs.append("lat-equals-a-node-latitude" if not case.get("lat_offset") else ("lat-a-hair-from-a-node-latitude" if abs(case["lat_offset"]) < 1e-3 else "lat-just-beyond-a-node-latitude"))
    if case["sel"] == "const_lat" and "bounds" in case["materialise"]:
        labs.append("cross-section-after-bounds")
    if case["sel"] == "const_lat" and case["lat_from_node"] is None and abs(case["lat"]) > 89.0:
        labs.append("lat-next-to-a-pole")
    nontrivial = case["idx_mode"] != "all" and (bool(case["materialise"]) or case["data"] is not None or case["source"] == "mpas")
    return labs, nontrivial


def _box(case):
    lo = ((case["lon0"] + 180.0) % 360.0) - 180.0
    hi = ((case["lon0"] + case["lon_w"] + 180.0) % 360.0) - 180.0
    la0 = case["lat0"]
    la1 = min(89.9, la0 + case["lat_h"])
    return (lo, hi), (la0, la1)


def _src_grid(case):
    ux = build.ux()
    if case["source"] == "mpas":
        ds, _ = writers.mpas_dataset(case["mesh"], radius=case.get("radius") or 1.0)
        return ux.open_grid(ds)
    return build.grid_from_mesh(case["mesh"], **(build.cartesian_kw(case["mesh"], case["radius"]) if case.get("radius") else {}))


def _edge_pairs(g):
    return [tuple(sorted((int(a), int(b)))) for a, b in np.asarray(g.edge_node_connectivity.values)]


def run_case(case, ctx):
    import numba

    INT_DTYPE, FILL = build.consts()
    ux = build.ux()
    fails = []
    mesh = case["mesh"]
    faces = mesh["faces"]
    n_face, n_node = len(faces), len(mesh["nodes"])
    xyz = meshgen.mesh_xyz(mesh)
    g = _src_grid(case)
    for q in case["materialise"]:
        getattr(g, q)
    sel = case["sel"]
    hist = "after-materialise" if case["materialise"] else "pristine"
    site = f"{sel}:{case['source']}{':cartesian-radius' if case.get('radius') else ''}:{hist}"

    def bad(oracle, kind, detail, s=None):
        fails.append(Failure(oracle, s or site, kind, detail))

    node_faces = refmodel.node_faces(faces, n_node)
    src_edges = None

    def edges_of_source():
        nonlocal src_edges
        if src_edges is None:
            src_edges = _edge_pairs(g)
        return src_edges

    def faces_touching_edges(eids):
        ep = edges_of_source()
        want = {ep[e] for e in eids}
        out = set()
        for fi, f in enumerate(faces):
            if any(pair in want for pair in refmodel.face_edges(f)):
                out.add(fi)
        return out

    def element_positions(kind):
        if kind == "nodes":
            return xyz
        if kind == "face centers":
            return writers.face_centres_xyz(mesh) if case["source"] != "mpas" else writers.mpas_dataset(mesh)[1]["xyz_c"]
        ep = edges_of_source()
        return np.array([S.arc_midpoint(tuple(xyz[a]), tuple(xyz[b])) for a, b in ep])

    def faces_of_elements(kind, ids):
        ids = [int(i) for i in ids]
        if kind == "nodes":
            out = set()
            for n in ids:
                out |= node_faces[n]
            return out
        if kind == "face centers":
            return set(ids)
        return faces_touching_edges(ids)

    rnd = np.random.RandomState(case["idx_seed"] % (2**32))
    expected = None
    may = set()
    call = None  # function(obj) -> result, obj is the grid or the data array

    if sel.startswith("isel"):
        kind = {"isel_face": "face centers", "isel_node": "nodes", "isel_edge": "edge centers"}[sel]
        n = {"isel_face": n_face, "isel_node": n_node}.get(sel) or len(edges_of_source())
        mode = case["idx_mode"]
        if mode == "all":
            idx = list(range(n))
        elif mode in ("scalar", "single"):
            idx = [int(rnd.randint(n))]
        else:
            k = int(rnd.randint(1, max(2, n)))
            idx = [int(i) for i in rnd.permutation(n)[:k]]
            if mode == "reversed":
                idx = sorted(idx, reverse=True)
        arg = idx[0] if mode == "scalar" else (np.array(idx) if case["idx_seed"] % 2 else idx)
        dim = {"isel_face": "n_face", "isel_node": "n_node", "isel_edge": "n_edge"}[sel]
        site += ":" + mode
        expected = faces_of_elements(kind, idx)
        call = lambda o: o.isel(**{dim: arg})
    elif sel == "bbox":
        (lo, hi), (la0, la1) = _box(case)
        kind = case["element"]
        P = element_positions(kind)
        lon = np.degrees(np.arctan2(P[:, 1], P[:, 0]))
        lat = np.degrees(np.arcsin(np.clip(P[:, 2], -1, 1)))
        span = lo > hi
        eps = 1e-6
        # (an element at a pole has no longitude; it only matters when its latitude lies inside the box)
        polar = (np.hypot(P[:, 0], P[:, 1]) < 1e-12) & (lat > la0 - eps) & (lat < la1 + eps)
        if np.any(polar):
            ctx.label("no-verdict:element-at-pole-has-no-longitude")
            return fails

        def dcirc(a, b):
            d = abs(((a - b + 180.0) % 360.0) - 180.0)
            return d

        near = (np.abs(lat - la0) < eps) | (np.abs(lat - la1) < eps) | (np.array([dcirc(x, lo) for x in lon]) < eps) | (np.array([dcirc(x, hi) for x in lon]) < eps)
        if np.any(near):
            ctx.label("no-verdict:reference-point-on-box-boundary")
            return fails
        if span:
            inlon = (lon > lo) | (lon < hi)
            site += ":spanning"
            if np.any(np.abs(np.abs(lon) - 180.0) < 1e-9):
                site += ":node-on-antimeridian"
        else:
            inlon = (lon > lo) & (lon < hi)
        inside = np.nonzero(inlon & (lat > la0) & (lat < la1))[0]
        site += ":" + kind.split()[0]
        if len(inside) == 0:
            ctx.label("no-verdict:empty-selection")
            try:
                g.subset.bounding_box((lo, hi), (la0, la1), element=kind)
                bad("selected_faces", "empty-selection-returned", "bounding box without any reference point inside returned a grid")
            except ValueError:
                pass
            return fails
        expected = faces_of_elements(kind, inside)
        call = lambda o: o.subset.bounding_box((lo, hi), (la0, la1), element=kind)
    elif sel in ("circle", "nn"):
        kind = case["element"]
        P = element_positions(kind)
        c = S.ll2xyz(*case["center"])
        D = np.array([S.angle(c, tuple(p)) for p in P])
        site += ":" + kind.split()[0]
        if sel == "circle":
            r = math.radians(case["r"])
            if np.any(np.abs(D - r) < 1e-8):
                ctx.label("no-verdict:reference-point-on-circle")
                return fails
            inside = np.nonzero(D < r)[0]
            if len(inside) == 0:
                ctx.label("no-verdict:empty-selection")
                return fails
            expected = faces_of_elements(kind, inside)
            call = lambda o: o.subset.bounding_circle(tuple(case["center"]), case["r"], element=kind)
        else:
            k = max(1, min(case["k"], len(P)))
            srt = np.sort(D)
            if k < len(P) and srt[k] - srt[k - 1] < 1e-9:
                ctx.label("no-verdict:nn-tie")
                return fails
            inside = np.argsort(D)[:k]
            expected = faces_of_elements(kind, inside)
            call = lambda o: o.subset.nearest_neighbor(tuple(case["center"]), k, element=kind)
    else:
        lat = case["lat"]
        if case["lat_from_node"] is not None:
            lat = float(mesh["nodes"][case["lat_from_node"] % n_node][1]) + float(case.get("lat_offset", 0.0))
            if abs(lat) >= 89.999:
                lat = case["lat"]
            else:
                site += ":node-latitude" + ("" if not case.get("lat_offset") else ":offset")
        # sides are decided on the latitudes themselves: a node whose latitude equals the requested one
        # (the same double) lies on the parallel, i.e. on neither side; a node within 1e-9 deg of it
        # without being equal is ambiguous
        # (when the source's Cartesian coordinates lie on a sphere of another radius, the node's height has to be
        # divided by that radius first, and an exact tie is ambiguous too)
        nlat = [float(p[1]) for p in mesh["nodes"]]
        tie_amb = case.get("radius") not in (None, 1.0)
        must = set()
        for fi, f in enumerate(faces):
            for a, b in refmodel.face_edges(f):
                da, db = nlat[a] - lat, nlat[b] - lat
                amb = ((da != 0.0 or tie_amb) and abs(da) < 1e-9) or ((db != 0.0 or tie_amb) and abs(db) < 1e-9)
                if amb:
                    may.add(fi)
                elif da * db < 0:
                    must.add(fi)
        may -= must
        expected = must
        site += f":threads{case['threads']}"
        if not must and not may:
            ctx.label("no-verdict:empty-selection")
            return fails
        numba.set_num_threads(min(case["threads"], numba.config.NUMBA_NUM_THREADS))
        call = lambda o: o.cross_section.constant_latitude(lat)

    # ---- run the selection (on the grid, or on a data array that carries it along)
    data = case["data"]
    da = None
    arr = None
    if data is not None:
        n_el = {"face": n_face, "node": n_node, "edge": len(edges_of_source())}[data]
        lead = tuple(case["lead"])
        arr = np.arange(int(np.prod(lead, dtype=int)) * n_el, dtype=float).reshape(lead + (n_el,))
        da = ux.UxDataArray(arr, dims=["time", "lev"][: len(lead)] + ["n_" + data], uxgrid=g, name="v")
    if not expected and sel == "const_lat":
        # only ambiguous edges: the library may raise or return any subset of `may`
        try:
            res = call(g)
        except ValueError:
            return fails
    if da is not None and case["via"] == "uxda":
        res_da = call(da)
        res = res_da.uxgrid
    else:
        res = call(g)
        res_da = None
    ctx.ev("selected_faces")
    if not isinstance(res, ux.Grid):
        bad("selected_faces", "type", f"result is {type(res).__name__}")
        return fails
    # ---- selected faces
    try:
        sfi = [int(i) for i in np.atleast_1d(res._ds["subgrid_face_indices"].values)]
    except KeyError:
        bad("selected_faces", "no-source-indices", "result records no subgrid_face_indices")
        return fails
    if len(set(sfi)) != len(sfi):
        bad("selected_faces", "duplicate-faces", f"subgrid_face_indices {sfi}")
        return fails
    got = set(sfi)
    if not (expected <= got and got <= (expected | may)):
        bad(
            "selected_faces",
            "wrong-faces",
            f"selection {sel} ({ {k: case[k] for k in ('element', 'idx_mode', 'center', 'r', 'k', 'lat')} }): result has source faces {sorted(got)}, reference selection is {sorted(expected)}" + (f" (+ optional {sorted(may)})" if may else "") + f"; missing {sorted(expected - got)}, extra {sorted(got - expected - may)}",
        )
        return fails
    conn = np.asarray(res.face_node_connectivity.values)
    if conn.ndim == 1:
        conn = conn[None, :]
    if res.n_face != len(sfi) or conn.shape[0] != len(sfi):
        bad("selected_faces", "count", f"n_face {res.n_face}, {len(sfi)} recorded source indices")
        return fails
    rlon, rlat = np.asarray(res.node_lon.values, float), np.asarray(res.node_lat.values, float)
    rxyz = S.ll2xyz_np(rlon, rlat)
    for i, src_f in enumerate(sfi):
        corners = [tuple(rxyz[j]) for j in conn[i] if j != FILL]
        if not S.cyclic_equal_positions(corners, [tuple(xyz[j]) for j in faces[src_f]]):
            bad("selected_faces", "corner-positions", f"result face {i} (source face {src_f}) has corners {[S.xyz2ll(c) for c in corners]}, source face has {[mesh['nodes'][j] for j in faces[src_f]]}")
            return fails
    used = sorted({int(j) for row in conn for j in row if j != FILL})
    if used != list(range(res.n_node)):
        bad("selected_faces", "unused-or-missing-nodes", f"result has {res.n_node} nodes, faces use {len(used)}")
        return fails

    # ---- data follows
    if da is not None:
        ctx.ev("data_follows")
        if res_da is None:
            res_da = call(da)
        rd = np.asarray(res_da.values)
        rg = res_da.uxgrid
        rconn = np.asarray(rg.face_node_connectivity.values)
        if rconn.ndim == 1:
            rconn = rconn[None, :]
        rx = S.ll2xyz_np(np.asarray(rg.node_lon.values, float), np.asarray(rg.node_lat.values, float))
        s_site = site + ":data-" + data
        if tuple(res_da.dims) != tuple(da.dims):
            bad("data_follows", "dims", f"{res_da.dims} vs {da.dims}", s_site)
            return fails

        def src_node(p):
            return next((j for j in range(n_node) if S.same_position(tuple(xyz[j]), p)), None)

        if data == "face":
            if rd.shape[-1] != rg.n_face:
                bad("data_follows", "length", f"{rd.shape[-1]} values for {rg.n_face} faces", s_site)
                return fails
            for i in range(rg.n_face):
                corners = [tuple(rx[j]) for j in rconn[i] if j != FILL]
                src_f = next((fi for fi, f in enumerate(faces) if S.cyclic_equal_positions(corners, [tuple(xyz[j]) for j in f])), None)
                if src_f is None or not np.array_equal(rd[..., i], arr[..., src_f]):
                    bad("data_follows", "value-moved", f"result face {i} is source face {src_f} but carries {rd[..., i].ravel()[:3]} (source value {None if src_f is None else arr[..., src_f].ravel()[:3]})", s_site)
                    return fails
        elif data == "node":
            if rd.shape[-1] != rg.n_node:
                bad("data_follows", "length", f"{rd.shape[-1]} values for {rg.n_node} nodes", s_site)
                return fails
            for i in range(rg.n_node):
                sj = src_node(tuple(rx[i]))
                if sj is None or not np.array_equal(rd[..., i], arr[..., sj]):
                    bad("data_follows", "value-moved", f"result node {i} is source node {sj} but carries {rd[..., i].ravel()[:3]} (source value {None if sj is None else arr[..., sj].ravel()[:3]})", s_site)
                    return fails
        else:
            ep = edges_of_source()
            ren = np.asarray(rg.edge_node_connectivity.values)
            if rd.shape[-1] != ren.shape[0]:
                bad("data_follows", "length", f"{rd.shape[-1]} values for {ren.shape[0]} edges", s_site)
                return fails
            for i, (a, b) in enumerate(ren):
                pa, pb = src_node(tuple(rx[int(a)])), src_node(tuple(rx[int(b)]))
                key = tuple(sorted((pa, pb))) if pa is not None and pb is not None else None
                se = ep.index(key) if key in ep else None
                if se is None or not np.array_equal(rd[..., i], arr[..., se]):
                    bad("data_follows", "value-moved", f"result edge {i} joins source nodes {key} = source edge {se} but carries {rd[..., i].ravel()[:3]} (source value {None if se is None else arr[..., se].ravel()[:3]})", s_site)
                    return fails

    # ---- fully functional: every derived quantity agrees with a fresh grid of the same faces
    ctx.ev("fully_functional")
    rfaces = [[int(j) for j in row if j != FILL] for row in conn]
    tmesh = {"nodes": [[float(a), float(b)] for a, b in zip(rlon, rlat)], "faces": rfaces}
    R = float(case.get("radius") or 1.0)
    # the fresh grid carries its Cartesian coordinates on the same sphere as the source
    twin = build.grid_from_mesh(tmesh, **(build.cartesian_kw(tmesh, R) if case.get("radius") else {}))
    f_site = site

    def pairs(gr):
        return [tuple(sorted((int(a), int(b)))) for a, b in np.asarray(gr.edge_node_connectivity.values)]

    try:
        rp, tp = pairs(res), pairs(twin)
        if sorted(rp) != sorted(tp) or len(set(rp)) != len(rp):
            bad("fully_functional", "edge_node", f"result edges {sorted(rp)[:6]}... ({len(rp)}) vs fresh {sorted(tp)[:6]}... ({len(tp)})", f_site)
            return fails
        if res.n_edge != len(tp):
            bad("fully_functional", "n_edge", f"{res.n_edge} vs {len(tp)}", f_site)
            return fails

        def fe_sets(gr, pr):
            out = []
            for row in np.asarray(gr.face_edge_connectivity.values).reshape(gr.n_face, -1):
                out.append(sorted(pr[int(e)] for e in row if e != FILL))
            return out

        if fe_sets(res, rp) != fe_sets(twin, tp):
            bad("fully_functional", "face_edge", "face_edge_connectivity of the result names other edges than a fresh grid's", f_site)
            return fails

        def ef_map(gr, pr):
            return {pr[e]: sorted(int(x) for x in row if x != FILL) for e, row in enumerate(np.asarray(gr.edge_face_connectivity.values).reshape(len(pr), -1))}

        if ef_map(res, rp) != ef_map(twin, tp):
            bad("fully_functional", "edge_face", "edge_face_connectivity differs from a fresh grid's", f_site)
            return fails

        def rows_as_sets(a, n):
            return [sorted(int(x) for x in row if x != FILL) for row in np.asarray(a).reshape(n, -1)]

        if rows_as_sets(res.node_face_connectivity.values, res.n_node) != rows_as_sets(twin.node_face_connectivity.values, twin.n_node):
            bad("fully_functional", "node_face", "node_face_connectivity differs from a fresh grid's", f_site)
            return fails
        if rows_as_sets(res.face_face_connectivity.values, res.n_face) != rows_as_sets(twin.face_face_connectivity.values, twin.n_face):
            bad("fully_functional", "face_face", "face_face_connectivity differs from a fresh grid's", f_site)
            return fails
        # boundary edges, as node pairs
        hidx = [int(e) for e in np.atleast_1d(np.asarray(res.hole_edge_indices)).ravel()]
        if any(e < 0 or e >= len(rp) for e in hidx):
            bad("fully_functional", "hole_edge_indices", f"hole_edge_indices of the result {hidx[:8]} name edges the result does not have (n_edge {len(rp)})", f_site)
            return fails
        hr = sorted(rp[e] for e in hidx)
        ht = sorted(tp[int(e)] for e in np.atleast_1d(np.asarray(twin.hole_edge_indices)).ravel())
        if hr != ht:
            bad("fully_functional", "hole_edge_indices", f"boundary edges of the result {hr[:6]}... ({len(hr)}) vs a fresh grid's {ht[:6]}... ({len(ht)})", f_site)
            return fails
        # (an MPAS-like source ships dvEdge in its own length unit, which the subset keeps: compared as angles)
        unit = R if case["source"] == "mpas" else 1.0
        dr = {rp[e]: float(v) / unit for e, v in enumerate(np.asarray(res.edge_node_distances.values, float))}
        dt = {tp[e]: float(v) for e, v in enumerate(np.asarray(twin.edge_node_distances.values, float))}
        if set(dr) != set(dt) or any(abs(dr[k] - dt[k]) > 1e-12 + (1e-9 * dt[k] if unit != 1.0 else 0.0) for k in dr):
            bad("fully_functional", "edge_node_distances", "edge_node_distances differ from a fresh grid's", f_site)
            return fails
        if case["source"] != "mpas":
            # (for an MPAS-like source dcEdge is the source's own table, in its own unit: not compared)
            fr = {rp[e]: float(v) for e, v in enumerate(np.asarray(res.edge_face_distances.values, float))}
            ft = {tp[e]: float(v) for e, v in enumerate(np.asarray(twin.edge_face_distances.values, float))}
            worst = max(fr, key=lambda k: abs(fr[k] - ft.get(k, 0.0))) if fr else None
            if set(fr) != set(ft) or (worst is not None and abs(fr[worst] - ft[worst]) > 1e-9):
                bad("fully_functional", "edge_face_distances", f"edge_face_distances differ from a fresh grid's: edge between nodes {worst}: {fr.get(worst)!r} vs {ft.get(worst)!r} (zero on the subset's boundary edges)", f_site)
                return fails
        if sorted(int(i) for i in np.atleast_1d(res.antimeridian_face_indices)) != sorted(int(i) for i in np.atleast_1d(twin.antimeridian_face_indices)):
            bad("fully_functional", "antimeridian_face_indices", f"{np.atleast_1d(res.antimeridian_face_indices).tolist()} vs fresh {np.atleast_1d(twin.antimeridian_face_indices).tolist()}", f_site)
            return fails
        if not np.array_equal(np.asarray(res.n_nodes_per_face.values), np.asarray(twin.n_nodes_per_face.values)):
            bad("fully_functional", "n_nodes_per_face", f"{np.asarray(res.n_nodes_per_face.values)} vs {np.asarray(twin.n_nodes_per_face.values)}", f_site)
            return fails
        for nm in ("node_x", "node_y", "node_z"):
            if not np.allclose(np.asarray(getattr(res, nm).values, float), np.asarray(getattr(twin, nm).values, float), rtol=0.0, atol=1e-12 * max(1.0, R)):
                bad("fully_functional", nm, "Cartesian node coordinates differ from a fresh grid's", f_site)
                return fails
        if case["source"] != "mpas":
            # (an MPAS-like source supplies its own centres and areas, which the subset legitimately keeps)
            ca = S.ll2xyz_np(np.asarray(res.face_lon.values, float), np.asarray(res.face_lat.values, float))
            cb = S.ll2xyz_np(np.asarray(twin.face_lon.values, float), np.asarray(twin.face_lat.values, float))
            if ca.shape != cb.shape or not all(S.same_position(tuple(p), tuple(q)) for p, q in zip(ca, cb)):
                bad("fully_functional", "face_centres", "face centres differ from a fresh grid's", f_site)
                return fails
            fa, fb = np.asarray(res.face_areas.values, float), np.asarray(twin.face_areas.values, float)
            if fa.shape != fb.shape or not np.allclose(fa, fb, rtol=1e-10, atol=1e-14):
                bad("fully_functional", "face_areas", f"face areas {fa[:4]} vs fresh {fb[:4]}", f_site)
                return fails
        # latitude-longitude bounds of each face (when the fresh grid can compute them)
        try:
            bt = np.asarray(twin.bounds.values, float)
        except Exception:  # noqa
            bt = None
        if bt is not None:
            br = np.asarray(res.bounds.values, float)
            if br.shape != bt.shape or not np.allclose(br, bt, rtol=0.0, atol=1e-9, equal_nan=True):
                bad("fully_functional", "bounds", f"face bounds differ from a fresh grid's: {br[:2].tolist()} vs {bt[:2].tolist()}", f_site)
                return fails
        # edge centres by node pair
        ea = S.ll2xyz_np(np.asarray(res.edge_lon.values, float), np.asarray(res.edge_lat.values, float))
        for e, (a, b) in enumerate(rp):
            mid = S.arc_midpoint(tuple(rxyz[a]), tuple(rxyz[b]))
            if not S.same_position(tuple(ea[e]), mid, 1e-6):
                bad("fully_functional", "edge_centres", f"edge {e} {a, b}: centre {S.xyz2ll(tuple(ea[e]))} is not the midpoint {S.xyz2ll(mid)}", f_site)
                return fails
    except Exception as e:  # noqa
        from ..core import innermost_lib_frame
        from ..runner import repo_root

        where = innermost_lib_frame(e.__traceback__, repo_root())
        if where is None:
            raise
        bad("fully_functional", "raises:" + type(e).__name__, f"deriving connectivity / geometry on the result failed in {where}: {e!r}"[:600], f_site)
    return fails
