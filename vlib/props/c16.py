"""C16 — Edge distances, differences and gradients follow the edge's own neighbours."""

import math

import numpy as np
from hypothesis import strategies as st

from ..core import sampled_from  # noqa: E402

from .. import build, datagen, meshgen, refmodel, writers
from .. import sphere as S
from ..core import Failure

ID = "C16"
RULE = (
    "grids (hull/voronoi/lat-lon/solid meshes: mixed sizes, partial with boundary edges, n_face above and below n_node; "
    "and MPAS-like sources supplying dvEdge/dcEdge at radius 1 or 6371229 in their own edge numbering) x face- or "
    "node-centred data of rank 1-4 (float64/float32/int64/int32). Oracles: geodesic distances from vlib/sphere.py on "
    "the source positions, per-edge absolute differences over the edge's own two faces/nodes, gradient = difference / "
    "centre distance. Topology-array grids carry Cartesian node coordinates at radius 6371229 in half of the cases. Non-trivial = grid has boundary edges or supplied distances or data has leading dims; distinct by "
    "case hash."
)
ASSUMPTIONS = [
    "grids with a derived face centre inside the documented pole cap (within 2e-4 rad of a pole, not on it) give no verdict on face distances and gradients (their node distances are judged)",
    "'edge e' is the grid's own edge_node_connectivity / edge_face_connectivity row e (C02/C03 judge those)",
    "derived distances are accepted in radians or, consistently for all edges, in degrees (the property fixes no unit)",
    "normalised gradient: unit Euclidean norm of the whole array or of every leading slice is accepted",
    "boolean data are not generated (numpy forbids boolean subtraction)",
]
BUDGET = {
    "quick": dict(shards=4, examples=200),
    "thorough": dict(shards=16, examples=2500, wall_cap_s=1500),
}


@st.composite
def _case(draw, tier):
    big = tier != "quick"
    src = draw(sampled_from(["topology", "topology", "mpas"]))
    if src == "mpas":
        mesh = draw(meshgen.voronoi_mesh(6, 26 if big else 14))
    else:
        mesh = draw(meshgen.any_mesh(max_pts=34 if big else 16, tiny=True, polar=True))
    centred = draw(sampled_from(["face", "face", "node"]))
    n = len(mesh["faces"]) if centred == "face" else len(mesh["nodes"])
    return {
        "mesh": mesh,
        "src": src,
        "radius": draw(sampled_from([1.0, 6371229.0])),
        # topology sources only: node_lon / node_lat stored in single precision (judged on the positions the stored
        # values denote; centres are then derived from single-precision Cartesian coordinates, good to ~1e-7 rad)
        "coord_dtype": draw(sampled_from(["float64", "float64", "float64", "float32"])),
        "edge_seed": draw(st.integers(0, 999)),
        "withhold": sorted(draw(st.sets(sampled_from(["dvEdge", "dcEdge"])))) if src == "mpas" else [],
        "centred": centred,
        "data": draw(datagen.data_spec(n, dtypes=["float64", "float32", "int64", "int32", "uint8", "uint16", "bool"], vmax=8, stores=datagen.STORES)),
        "constant": draw(sampled_from([False, False, False, True])),
        # floating-point fields may hold NaN / inf (missing data): on the face next to a boundary edge, and on a drawn face
        "nonfinite": draw(sampled_from([None, None, None, None, "nan", "inf"])),
        "nonfinite_face": draw(st.integers(0, 10_000)),
        "order": draw(st.permutations([0, 1, 2, 3])),
    }


def strategy(tier, excl):
    return _case(tier)


def classify(case):
    mesh = case["mesh"]
    labs = ["src:" + case["src"], "data:" + case["centred"], f"rank:{len(case['data']['lead']) + 1}", "dtype:" + case["data"]["dtype"]]
    boundary = not refmodel.is_closed(mesh["faces"])
    if boundary:
        labs.append("boundary-edges")
    nf, nn = len(mesh["faces"]), len(mesh["nodes"])
    labs.append("n_face>n_node" if nf > nn else ("n_face<n_node" if nf < nn else "n_face==n_node"))
    if case["constant"]:
        labs.append("constant-field")
    for w in case["withhold"]:
        labs.append("withheld:" + w)
    return labs, (boundary or case["src"] == "mpas" or bool(case["data"]["lead"]))


def run_case(case, ctx):
    INT_DTYPE, FILL = build.consts()
    ux = build.ux()
    mesh = case["mesh"]
    fails = []
    winfo = None
    f32 = case["src"] != "mpas" and case.get("coord_dtype") == "float32" and mesh.get("family") != "tiny-patch"
    FD_TOL = 1e-9
    if f32:
        mesh = dict(mesh, nodes=[[float(np.float32(a)), float(np.float32(b))] for a, b in mesh["nodes"]])
        FD_TOL = 1e-5  # centres come from single-precision Cartesian coordinates (large faces: cancellation in the mean)
    if case["src"] == "mpas":
        ds, winfo = writers.mpas_dataset(mesh, radius=case["radius"], edge_perm_seed=case["edge_seed"], withhold=case["withhold"])
        g = ux.open_grid(ds)
    else:
        # topology arrays, in half of the cases with Cartesian node coordinates on a sphere of the drawn radius
        if f32:
            g = build.grid_from_mesh(mesh, coord_dtype="float32")
        else:
            g = build.grid_from_mesh(mesh, **(build.cartesian_kw(mesh, case["radius"]) if case["radius"] != 1.0 else {}))
    site = case["src"] + (":float32-coordinates" if f32 else (":cartesian-radius" if case["src"] != "mpas" and case["radius"] != 1.0 else ""))

    def bad(oracle, kind, detail, s=None):
        fails.append(Failure(oracle, s or site, kind, detail))

    # drawn order of first access of the four edge tables/distances
    names = ["edge_node_distances", "edge_face_distances", "edge_node_connectivity", "edge_face_connectivity"]
    for k in case["order"]:
        getattr(g, names[k])
    en = np.array(g.edge_node_connectivity.values, copy=True)  # copies: expectations must not see later in-place edits
    ef = np.array(g.edge_face_connectivity.values, copy=True)
    n_edge = en.shape[0]
    xyz = meshgen.mesh_xyz(mesh)
    if winfo is not None:
        cxyz = winfo["xyz_c"]
    else:
        cxyz = writers.face_centres_xyz(mesh)

    # ---- edge_node_distances
    end = np.array(g.edge_node_distances.values, dtype=float, copy=True)  # a copy: later compared with a re-read
    ref_nd = np.array([S.angle(tuple(xyz[a]), tuple(xyz[b])) for a, b in en])
    ctx.ev("edge_node_distance")
    supplied_dv = winfo is not None and "dvEdge" not in case["withhold"]
    if end.shape != (n_edge,):
        bad("edge_node_distance", "shape", f"{end.shape}")
    elif supplied_dv:
        if not np.allclose(end, winfo["dv"], rtol=1e-12, atol=0):
            bad("edge_node_distance", "supplied-not-carried", f"{end[:3]} vs dvEdge {winfo['dv'][:3]}", "mpas:supplied")
    else:
        if not (np.allclose(end, ref_nd, rtol=1e-9, atol=1e-9) or np.allclose(end, np.degrees(ref_nd), rtol=1e-9, atol=1e-7)):
            i = int(np.argmax(np.abs(end - ref_nd)))
            bad("edge_node_distance", "wrong", f"edge {i} nodes {en[i].tolist()}: {end[i]!r} expected {ref_nd[i]!r} rad")

    # ---- edge_face_distances
    if winfo is None and any(1e-15 < float(np.hypot(c[0], c[1])) / max(float(np.linalg.norm(c)), 1e-300) < 2e-4 for c in np.asarray(cxyz, float)):
        # a derived face centre inside the library's documented pole cap (|z| > 1 - 1e-8) is reported at the pole itself:
        # distances between such centres are only defined to that tolerance (as large as the distances themselves)
        ctx.label("no-verdict:face-centre-in-pole-cap")
        return fails
    efd = np.array(g.edge_face_distances.values, dtype=float, copy=True)
    interior = (ef[:, 0] != FILL) & (ef[:, 1] != FILL)
    ref_fd = np.zeros(n_edge)
    for e in range(n_edge):
        if interior[e]:
            ref_fd[e] = S.angle(tuple(cxyz[int(ef[e, 0])]), tuple(cxyz[int(ef[e, 1])]))
    ctx.ev("edge_face_distance")
    supplied_dc = winfo is not None and "dcEdge" not in case["withhold"]
    centre_dist = ref_fd
    if efd.shape != (n_edge,):
        bad("edge_face_distance", "shape", f"{efd.shape}")
        return fails
    if supplied_dc:
        centre_dist = np.asarray(winfo["dc"], float)
        if not np.allclose(efd, winfo["dc"], rtol=1e-12, atol=0):
            bad("edge_face_distance", "supplied-not-carried", f"{efd[:3]} vs dcEdge {winfo['dc'][:3]}", "mpas:supplied")
    else:
        unit = None
        if np.allclose(efd, ref_fd, rtol=1e-9, atol=FD_TOL):
            unit = "rad"
        elif np.allclose(efd, np.degrees(ref_fd), rtol=1e-9, atol=1e-7):
            unit = "deg"
            centre_dist = np.degrees(ref_fd)
        if unit is None:
            i = int(np.argmax(np.abs(efd - ref_fd)))
            bad("edge_face_distance", "wrong", f"edge {i} faces {ef[i].tolist()}: {efd[i]!r} expected {ref_fd[i]!r} rad (zero on boundary edges)")

    # ---- data
    spec = case["data"]
    centred = case["centred"]
    n = g.n_face if centred == "face" else g.n_node
    da, arr = datagen.uxda(g, spec, "n_" + centred, n, name="v")
    if case["constant"]:
        arr = np.full(arr.shape, 3, dtype=arr.dtype)
        da = ux.UxDataArray(arr.copy(), dims=da.dims, uxgrid=g, name="v")
    a64 = arr.astype(float)
    lead = tuple(spec["lead"])
    want_dims = tuple(datagen.lead_dims(spec)) + ("n_edge",)
    rtol = 1e-5 if spec["dtype"] == "float32" else 1e-12

    def dims_grid(res, what):
        ctx.ev("dims_grid")
        if not isinstance(res, ux.UxDataArray) or tuple(res.dims) != want_dims or res.uxgrid is not g or res.shape != lead + (n_edge,):
            bad("dims_grid", "wrong", f"{what}: type {type(res).__name__} dims {getattr(res, 'dims', None)} shape {getattr(res, 'shape', None)} same grid {getattr(res, 'uxgrid', None) is g}", what)
            return False
        return True

    if centred == "node":
        res = da.difference(destination="edge")
        if dims_grid(res, "difference(node)"):
            ctx.ev("difference_nodes")
            exp = np.abs(a64[..., en[:, 0]] - a64[..., en[:, 1]])
            if not np.allclose(np.asarray(res.values, float), exp, rtol=rtol, atol=rtol):
                bad("difference_nodes", "wrong", f"max abs deviation {np.abs(np.asarray(res.values, float) - exp).max()}")
        # gradient of node-centred data is documented as unsupported: must raise
        ctx.ev("gradient_rejects_non_face")
        try:
            r = da.gradient()
            bad("gradient_rejects_non_face", "returned", f"gradient() of node-centred data returned {type(r).__name__}")
        except (ValueError, NotImplementedError, TypeError):
            pass
        ctx.ev("input_unchanged")
        if datagen.modified(da, arr):
            bad("input_unchanged", "data-modified", f"difference() changed the variable it was called on: {np.asarray(da.values).ravel()[:4]} vs {arr.ravel()[:4]}")
        return fails

    # face-centred
    if case.get("nonfinite") and spec["dtype"].startswith("float") and not case["constant"] and not fails:
        # missing data: a boundary edge has no second face, so its difference and gradient are zero whatever its one face
        # holds; an edge between two finite faces is what it always is; edges touching a non-finite face give no verdict
        bval = np.nan if case["nonfinite"] == "nan" else np.inf
        arr_nf = a64.copy()
        bfaces = sorted({int(ef[e, 0]) for e in range(n_edge) if not interior[e]})
        hit = set(bfaces[:1]) | {case["nonfinite_face"] % arr_nf.shape[-1]}
        for f_ in hit:
            arr_nf[..., f_] = bval
        da_nf = ux.UxDataArray(arr_nf.astype(spec["dtype"]), dims=da.dims, uxgrid=g, name="v")
        ctx.label("data:non-finite-next-to-a-boundary-edge" if bfaces else "data:non-finite")
        finite_edge = np.array([bool(interior[e]) and int(ef[e, 0]) not in hit and int(ef[e, 1]) not in hit for e in range(n_edge)])
        with np.errstate(all="ignore"):
            for what, res_nf in (("difference", da_nf.difference(destination="edge")), ("gradient", da_nf.gradient())):
                got_nf = np.asarray(res_nf.values, float)
                ctx.ev("difference_faces" if what == "difference" else "gradient_value")
                if got_nf.shape != lead + (n_edge,):
                    bad("dims_grid", "wrong", f"{what} of a field with non-finite values: shape {got_nf.shape}", what)
                    return fails
                bnd = ~interior
                if bnd.any() and not np.all(got_nf[..., bnd] == 0):
                    e = int(np.argwhere(bnd & ~np.all(got_nf.reshape(-1, n_edge) == 0, axis=0))[0][0])
                    bad("difference_faces" if what == "difference" else "gradient_value", "boundary-edge-not-zero", f"{what}: boundary edge {e} (its one face {int(ef[e, 0])} holds {case['nonfinite']}) reports {got_nf[..., e].ravel()[:3]}, expected 0", site + ":non-finite-data")
                    return fails
                if finite_edge.any() and what == "difference":  # (gradient values of finite fields are judged below)
                    ex_ = np.abs(arr_nf[..., ef[finite_edge, 0]] - arr_nf[..., ef[finite_edge, 1]])
                    tol_ = rtol
                    if not np.allclose(got_nf[..., finite_edge], ex_, rtol=tol_, atol=tol_):
                        bad("difference_faces" if what == "difference" else "gradient_value", "wrong", f"{what} between finite faces changed by non-finite values elsewhere in the field", site + ":non-finite-data")
                        return fails
    exp_diff = np.zeros(lead + (n_edge,))
    for e in range(n_edge):
        if interior[e]:
            exp_diff[..., e] = np.abs(a64[..., int(ef[e, 0])] - a64[..., int(ef[e, 1])])
    res = da.difference(destination="edge")
    if dims_grid(res, "difference(face)"):
        ctx.ev("difference_faces")
        got = np.asarray(res.values, float)
        if not np.allclose(got, exp_diff, rtol=rtol, atol=rtol):
            i = np.argwhere(~np.isclose(got, exp_diff, rtol=rtol, atol=rtol))[0]
            e = int(i[-1])
            bad("difference_faces", "wrong", f"edge {e} faces {ef[e].tolist()}: got {got[tuple(i)]!r} expected {exp_diff[tuple(i)]!r}")
    grad = da.gradient()
    ctx.ev("input_unchanged")
    if datagen.modified(da, arr):
        bad("input_unchanged", "data-modified", f"difference() / gradient() changed the variable they were called on: {np.asarray(da.values).ravel()[:4]} vs {arr.ravel()[:4]}")
        return fails
    # computing a gradient is a read: the grid's distances must still be what they were
    ctx.ev("distances_unchanged_by_gradient")
    efd2 = np.asarray(g.edge_face_distances.values, float)
    end2 = np.asarray(g.edge_node_distances.values, float)
    if not np.array_equal(np.asarray(g.edge_face_connectivity.values), ef) or not np.array_equal(np.asarray(g.edge_node_connectivity.values), en):
        bad("distances_unchanged_by_gradient", "connectivity-changed", "after difference() / gradient() the grid's edge_face_connectivity or edge_node_connectivity is no longer what it was", site + ":after-gradient")
        return fails
    if not np.array_equal(efd2, efd) or not np.array_equal(end2, end):
        i = int(np.argmax(np.abs(efd2 - efd))) if not np.array_equal(efd2, efd) else int(np.argmax(np.abs(end2 - end)))
        bad("distances_unchanged_by_gradient", "changed", f"after gradient(): edge {i} (faces {ef[i].tolist()}) edge_face_distances {efd[i]!r} -> {efd2[i]!r}, edge_node_distances {end[i]!r} -> {end2[i]!r}", site + ":after-gradient")
    if dims_grid(grad, "gradient"):
        ctx.ev("gradient_value")
        got = np.asarray(grad.values, float)
        exp = np.zeros_like(exp_diff)
        with np.errstate(divide="ignore", invalid="ignore"):
            exp[..., interior] = exp_diff[..., interior] / centre_dist[interior]
        # distances are asserted to 1e-9 rad absolute; a gradient inherits the relative error of its distance
        with np.errstate(divide="ignore", invalid="ignore"):
            rel = np.where(interior, np.maximum(max(rtol, 1e-9), 2 * FD_TOL / np.where(centre_dist > 0, centre_dist, 1.0)), max(rtol, 1e-9))
        okm = np.abs(got - exp) <= rel * np.abs(exp) + 1e-12
        if not np.all(okm):
            i = np.argwhere(~okm)[0]
            e = int(i[-1])
            bad("gradient_value", "wrong", f"edge {e} faces {ef[e].tolist()} (interior={bool(interior[e])}): got {got[tuple(i)]!r} expected {exp[tuple(i)]!r} = {exp_diff[tuple(i)]!r}/{centre_dist[e]!r}")
        if case["constant"] and np.any(got != 0):
            bad("gradient_value", "constant-field-nonzero", f"max {np.abs(got).max()}")
        # independence along leading dims: each leading slice equals the gradient of that slice alone
        if lead and not fails:
            ctx.ev("independent_leading_dims")
            idx = tuple(0 for _ in lead)
            single = ux.UxDataArray(arr[idx].copy(), dims=["n_face"], uxgrid=g, name="v").gradient()
            if not np.allclose(np.asarray(single.values, float), got[idx], rtol=rtol, atol=1e-15):
                bad("independent_leading_dims", "differs", "slice gradient differs from gradient of the slice")
        # normalised
        if not case["constant"] and np.any(exp != 0):
            ctx.ev("gradient_normalised")
            gn = np.asarray(da.gradient(normalize=True).values, float)
            whole = abs(np.linalg.norm(gn) - 1.0) <= 1e-9
            per_slice = bool(lead) and np.allclose(np.linalg.norm(gn.reshape(-1, n_edge), axis=1), 1.0, atol=1e-9)
            direction_ok = True
            nz = exp != 0
            if nz.any():
                # proportional to the un-normalised gradient
                ratio = gn[nz] / exp[nz]
                if whole:
                    # the expectation carries the relative error of each edge's distance (float32-sized for
                    # single-precision sources, large for very short edges): the same tolerance as gradient_value
                    direction_ok = np.allclose(ratio, ratio.flat[0], rtol=max(1e-6, 4 * float(np.max(np.broadcast_to(rel, exp.shape)[nz]))))
            if not (whole or per_slice):
                bad("gradient_normalised", "not-unit-norm", f"norm {np.linalg.norm(gn)!r}")
            elif not direction_ok:
                bad("gradient_normalised", "not-proportional", "normalised gradient is not a multiple of the gradient")
    return fails
