"""C11 — Neighbour queries agree with brute-force search under the tree's metric."""

import math

import numpy as np
from hypothesis import strategies as st

from ..core import sampled_from  # noqa: E402

from .. import build, meshgen, writers
from .. import sphere as S
from ..core import Failure, need

ID = "C11"
RULE = (
    "a history of 1-5 tree requests on one generated grid (hull / Voronoi / lat-lon / solid meshes with planted nodes at the "
    "poles and on the antimeridian): each step draws the tree type (ball / kd), element kind (nodes / edge centers / face "
    "centers), one of the four documented configurations (ball+spherical+haversine, ball+cartesian+euclidean|minkowski, "
    "kd+cartesian, kd+spherical), reconstruct, and a k-nearest or radius query (1-4 query points, degrees or radians, planted "
    "at +-180 longitude, near and at the poles and on top of elements; k in 1..n; radius >= 0). Oracle: brute-force distances "
    "to every element under the requested metric, tie-tolerant (1e-9). The query array is compared with a private copy afterwards; grids may carry Cartesian node coordinates on a non-unit sphere (Cartesian queries are then posed in the frame of the coordinates the grid reports). Non-trivial = at least two steps with different "
    "configurations, or a batched query, or a query point within 10 degrees of the antimeridian or a pole; distinct by case hash."
)
ASSUMPTIONS = [
    "documented call conventions: ball+spherical queries take (lon, lat), kd+spherical queries take (lat, lon), Cartesian trees take (x, y, z); radius of ball+spherical trees is in degrees (docstring) whatever in_radians says",
    "not generated (unit/semantics undocumented): radius queries on kd+spherical trees; ball trees on spherical coordinates with a non-haversine metric; metrics other than the Euclidean family",
    "for kd+spherical trees the element (lat, lon) are the grid's own reported coordinates (C04 judges those; the +-180 / pole longitude choice is free)",
    "an element is 'edge e' / 'face f' by the grid's own numbering; its position is recomputed from the mesh (arc midpoint, normalised corner mean)",
    "tolerances: 1e-9 rad for ties and distances; 5e-8 rad for great-circle distances within 0.02 rad of the antipode (conditioning of the haversine formula); steps whose element kind has a centre inside the documented pole-snapping cap give no verdict",
]
BUDGET = {
    "quick": dict(shards=4, examples=250),
    "thorough": dict(shards=16, examples=3000, wall_cap_s=1500),
}

CONFIGS = [
    ("ball", "spherical", "haversine"),
    ("ball", "cartesian", "euclidean"),
    ("ball", "cartesian", "minkowski"),
    ("kd", "cartesian", "minkowski"),
    ("kd", "cartesian", "euclidean"),
    ("kd", "spherical", "minkowski"),
]
KINDS = ["nodes", "edge centers", "face centers"]
TIE = 1e-9


@st.composite
def _qpoint(draw):
    how = draw(sampled_from(["any", "any", "am", "pole", "nearpole", "element"]))
    if how == "am":
        return [draw(sampled_from([180.0, -180.0, 179.9, -179.9, 175.0, -176.0])), draw(st.floats(-85, 85))], how
    if how == "pole":
        return [draw(st.floats(-180, 180)), draw(sampled_from([90.0, -90.0]))], how
    if how == "nearpole":
        return [draw(st.floats(-180, 180)), draw(sampled_from([1, -1])) * draw(st.floats(80, 89.9))], how
    if how == "element":
        return ["element", draw(st.integers(0, 10**6))], how
    return [draw(st.floats(-180, 180)), math.degrees(math.asin(draw(st.floats(-1, 1))))], how


@st.composite
def _step(draw):
    tree, system, metric = draw(sampled_from(CONFIGS))
    kind = draw(sampled_from(KINDS))
    q = draw(sampled_from(["knn", "knn", "radius"]))
    if tree == "kd" and system == "spherical":
        q = "knn"
    pts = [draw(_qpoint())[0] for _ in range(draw(sampled_from([1, 1, 2, 3, 4])))]
    return {
        "tree": tree,
        "system": system,
        "metric": metric,
        "kind": kind,
        "reconstruct": draw(sampled_from([False, False, False, True])),
        "query": q,
        "points": pts,
        "in_radians": draw(st.booleans()),
        "k_frac": draw(st.floats(0, 1)),
        "k_small": draw(st.integers(1, 4)),
        "use_small_k": draw(st.booleans()),
        "k_mode": draw(sampled_from(["draw", "draw", "max", "max-1", "one"])),
        "radius_deg": draw(sampled_from([0.0, 1.0, 30.0, 180.0]) | st.floats(0.0, 120.0)),
        "return_distance": draw(sampled_from([True, True, False])),
        # arguments equal to their documented defaults (k=1, in_radians=False, return_distance=True / False) are left out
        "omit_defaults": draw(st.booleans()),
        # the element kind is switched through the tree object's own public setter after the tree was obtained
        "via_setter": draw(sampled_from([None, None, None] + KINDS)),
    }


@st.composite
def _case(draw, tier):
    big = tier != "quick"
    mesh = draw(meshgen.any_mesh(max_pts=30 if big else 14, partial=True, tiny=True, polar=True))
    mesh.pop("centers", None)
    steps = draw(st.lists(_step(), min_size=1, max_size=5))
    if draw(st.integers(0, 3)) == 0:
        # planted return trip: the same tree asked for kind A, then B, then A again without reconstruction, the last
        # query with k = every element of A (a count remembered from B would refuse or truncate it)
        a = dict(steps[0], reconstruct=False, via_setter=None)
        b = dict(a, kind=draw(sampled_from([k_ for k_ in KINDS if k_ != a["kind"]])))
        a2 = dict(a, query="knn", k_mode=draw(sampled_from(["max", "max", "max-1"])), return_distance=True)
        steps = [a, b, a2] + steps[1:3]
    return {"mesh": mesh, "steps": steps, "radius": draw(sampled_from([None, None, None, 2.5, 6371229.0]))}


def strategy(tier, excl):
    return _case(tier)


def classify(case):
    labs = [f"steps:{len(case['steps'])}", "cartesian-radius:" + str(case.get("radius"))]
    cfgs = {(s["tree"], s["system"], s["metric"], s["kind"]) for s in case["steps"]}
    trees = {}
    switch = False
    for s in case["steps"]:
        prev = trees.get(s["tree"])
        cur = (s["system"], s["metric"], s["kind"])
        if prev is not None and prev != cur:
            switch = True
        trees[s["tree"]] = cur
        labs.append(f"cfg:{s['tree']}/{s['system']}/{s['metric']}")
        labs.append("kind:" + s["kind"])
        labs.append("query:" + s["query"])
        if len(s["points"]) > 1:
            labs.append("batched")
        if s["reconstruct"]:
            labs.append("reconstruct")
    if switch:
        labs.append("same-tree-type-reparameterised")
    special = any(
        isinstance(p[0], float) and (abs(abs(p[0]) - 180.0) < 10.0 or abs(p[1]) > 80.0) for s in case["steps"] for p in s["points"]
    )
    if special:
        labs.append("query-near-antimeridian-or-pole")
    labs = sorted(set(labs))
    return labs, (switch or len(cfgs) > 1 or "batched" in labs or special)


def _elements(g, mesh, kind):
    """Unit vectors of the elements of `kind`, recomputed from the mesh, in the grid's numbering."""
    xyz = meshgen.mesh_xyz(mesh)
    if kind == "nodes":
        return xyz
    if kind == "face centers":
        return writers.face_centres_xyz(mesh)
    en = np.asarray(g.edge_node_connectivity.values)
    return np.array([S.arc_midpoint(tuple(xyz[a]), tuple(xyz[b])) for a, b in en])


def _reported_latlon(g, kind):
    pre = {"nodes": "node", "edge centers": "edge", "face centers": "face"}[kind]
    return np.asarray(getattr(g, pre + "_lat").values, float), np.asarray(getattr(g, pre + "_lon").values, float)


def run_case(case, ctx):
    INT_DTYPE, FILL = build.consts()
    mesh = case["mesh"]
    g = build.grid_from_mesh(mesh, **(build.cartesian_kw(mesh, case["radius"]) if case.get("radius") else {}))
    fails = []
    seen = {"ball": None, "kd": None}
    for si, st_ in enumerate(case["steps"]):
        tree_t, system, metric, kind = st_["tree"], st_["system"], st_["metric"], st_["kind"]
        cur = (system, metric, kind)
        hist = "first" if seen[tree_t] is None else ("same" if seen[tree_t] == cur else ("kind-switch" if seen[tree_t][:2] == cur[:2] else "config-switch"))
        if st_["reconstruct"]:
            hist += "+reconstruct"
        seen[tree_t] = cur
        site = f"{tree_t}/{system}/{metric}/{kind.split()[0]}:{hist}"

        def bad(oracle, k, detail):
            fails.append(Failure(oracle, site, k, f"step {si}: {detail}"))

        getter = g.get_ball_tree if tree_t == "ball" else g.get_kd_tree
        if st_.get("via_setter") and st_["via_setter"] != kind:
            tree = need(getter(coordinates=st_["via_setter"], coordinate_system=system, distance_metric=metric, reconstruct=st_["reconstruct"]), "query", f"Grid.get_{tree_t}_tree")
            tree.coordinates = kind
            site += "+setter"
        else:
            tree = need(getter(coordinates=kind, coordinate_system=system, distance_metric=metric, reconstruct=st_["reconstruct"]), "query", f"Grid.get_{tree_t}_tree")
        ctx.ev("tree_reflects_request")
        got_cfg = (getattr(tree, "coordinates", None), getattr(tree, "coordinate_system", None), getattr(tree, "distance_metric", None))
        if got_cfg != (kind, system, metric):
            bad("tree_reflects_request", "attributes", f"requested {(kind, system, metric)} but tree reports {got_cfg}")
            return fails

        el = _elements(g, mesh, kind)
        n = len(el)
        rho = np.hypot(el[:, 0], el[:, 1])
        if np.any((rho > 1e-15) & (rho < 2e-4)):
            # an element centre inside the library's documented pole-snapping cap (|z| > 1 - 1e-8): its reported
            # position may legitimately be the pole itself, so distances are ambiguous by up to 1.4e-4 rad
            ctx.label("no-verdict:element-in-pole-cap")
            continue
        # ---- query points
        qll = []
        for p in st_["points"]:
            if p[0] == "element":
                lon, lat = S.xyz2ll(tuple(el[p[1] % n]))
                qll.append([lon, lat])
            else:
                qll.append([float(p[0]), float(p[1])])
        qxyz = np.array([S.ll2xyz(lon, lat) for lon, lat in qll])
        in_rad = st_["in_radians"]
        scale = 1.0
        if system == "cartesian":
            if case.get("radius"):
                # the tree holds the Cartesian coordinates the grid reports for these elements (nodes on the supplied
                # sphere, derived centres possibly on the unit sphere): the query is posed in that frame, on the
                # elements' own sphere; that reported and true directions agree is C04's subject
                pre = {"nodes": "node", "edge centers": "edge", "face centers": "face"}[kind]
                el_c = np.stack([np.asarray(getattr(g, pre + "_" + ax).values, float) for ax in "xyz"], axis=1)
                nrm = np.linalg.norm(el_c, axis=1)
                scale = float(np.median(nrm))
                if not np.allclose(nrm, scale, rtol=1e-9) or not np.allclose(el_c / scale, el, atol=1e-7):
                    ctx.label("no-verdict:reported-cartesian-elements-differ")
                    continue
                el_cart = el_c
            else:
                el_cart = el
            coords = qxyz * scale
        elif tree_t == "ball":
            coords = np.array(qll, float)  # (lon, lat)
            if in_rad:
                coords = np.radians(coords)
        else:
            coords = np.array([[lat, lon] for lon, lat in qll], float)  # (lat, lon)
            if in_rad:
                coords = np.radians(coords)
        single = len(qll) == 1
        arg = coords[0] if (single and si % 2 == 0) else coords
        arg_before = np.array(arg, copy=True)

        # ---- brute force
        TOL = None
        if system == "cartesian":
            D = np.linalg.norm(coords[:, None, :] - el_cart[None, :, :], axis=2)
            unit = 1.0
            TOL = np.full(D.shape, TIE * scale)
        elif tree_t == "ball":
            D = S.angle_np(qxyz[:, None, :], el[None, :, :])
            unit = 1.0 if in_rad else 180.0 / math.pi
            # the haversine formula is ill-conditioned near the antipode (error ~ sqrt(eps) = 1.5e-8 rad)
            TOL = np.where(D > math.pi - 0.02, 5e-8, TIE)
        else:
            elat, elon = _reported_latlon(g, kind)
            qlat = np.radians([p[1] for p in qll])
            qlon = np.radians([p[0] for p in qll])
            D = np.sqrt((qlat[:, None] - np.radians(elat)[None, :]) ** 2 + (qlon[:, None] - np.radians(elon)[None, :]) ** 2)
            unit = 1.0 if in_rad else 180.0 / math.pi

        if TOL is None:
            TOL = np.full(D.shape, TIE)
        kw = {}
        if system == "spherical":
            kw["in_radians"] = in_rad
        if st_["query"] == "knn":
            k = max(1, min(n, st_["k_small"] if st_["use_small_k"] else 1 + int(st_["k_frac"] * (n - 1) + 0.5)))
            km = st_.get("k_mode", "draw")
            k = n if km == "max" else (max(1, n - 1) if km == "max-1" else (1 if km == "one" else k))
            ctx.ev("knn_matches_bruteforce")
            ckw = dict(kw, k=k, return_distance=bool(st_["return_distance"]))
            if st_.get("omit_defaults"):
                full = dict(ckw)
                ckw = {a: v for a, v in full.items() if v != {"k": 1, "return_distance": True, "in_radians": False}[a]}
                ctx.label("knn-defaults-omitted:" + ",".join(sorted(set(full) - set(ckw))))
            if st_["return_distance"]:
                d, ind = tree.query(arg, **ckw)
            else:
                d, ind = None, tree.query(arg, **ckw)
            ind = np.asarray(ind)
            if ind.dtype != INT_DTYPE:
                bad("knn_matches_bruteforce", "index-dtype", f"{ind.dtype}")
            ind = ind.reshape(len(qll), k) if ind.size == len(qll) * k else None
            if ind is None:
                bad("knn_matches_bruteforce", "shape", f"index shape {np.asarray(tree.query(arg, k=k, return_distance=False, **kw)).shape} for {len(qll)} points, k={k}")
                return fails
            if d is not None:
                d = np.asarray(d, float)
                if d.size != len(qll) * k:
                    bad("distance_units", "shape", f"distance shape {d.shape}")
                    return fails
                d = d.reshape(len(qll), k)
            for qi in range(len(qll)):
                row = D[qi]
                srt = np.sort(row)
                kth = srt[k - 1]
                got = [int(i) for i in ind[qi]]
                if len(set(got)) != k or min(got) < 0 or max(got) >= n:
                    bad("knn_matches_bruteforce", "invalid-indices", f"query {qll[qi]} k={k}: {got}")
                    break
                tol = TOL[qi]
                must = {int(i) for i in np.nonzero(row < kth - tol - tol.max())[0]}
                may = {int(i) for i in np.nonzero(row <= kth + tol + tol.max())[0]}
                if not must <= set(got) or not set(got) <= may:
                    bad(
                        "knn_matches_bruteforce",
                        "wrong-neighbours",
                        f"query (lon,lat)={qll[qi]} k={k} in_radians={in_rad}: got {got} (true distances {[float(row[i]) for i in got]}), brute force nearest {np.argsort(row)[:k].tolist()} (distances {srt[:k].tolist()})",
                    )
                    break
                dd = [row[i] for i in got]
                if any(dd[j] > dd[j + 1] + 2 * tol.max() for j in range(k - 1)):
                    bad("knn_matches_bruteforce", "not-nearest-first", f"query {qll[qi]}: returned order {got} has true distances {dd}")
                    break
                if d is not None:
                    ctx.ev("distance_units")
                    exp = np.array(dd) * unit
                    if not np.all(np.abs(d[qi] - exp) <= (1e-9 * np.abs(exp) + np.array([tol[i] for i in got]) * unit)):
                        bad("distance_units", "wrong-distance", f"query {qll[qi]} in_radians={in_rad}: returned {d[qi].tolist()} expected {exp.tolist()}")
                        break
        else:
            r_deg = st_["radius_deg"]
            if system == "cartesian":
                r = 2.0 * math.sin(math.radians(min(r_deg, 180.0)) / 2.0) * scale  # chord of that angle on the elements' sphere
                r_cmp = r
            else:
                r = r_deg  # documented: degrees
                r_cmp = math.radians(r_deg)
            ctx.ev("radius_matches_bruteforce")
            rkw = dict(kw, r=r, return_distance=bool(st_["return_distance"]))
            if st_.get("omit_defaults"):
                rkw = {a: v for a, v in rkw.items() if a == "r" or v != {"return_distance": False, "in_radians": False}[a]}
            if st_["return_distance"]:
                d, ind = tree.query_radius(arg, **rkw)
            else:
                d, ind = None, tree.query_radius(arg, **rkw)
            if single:
                ind_l = [np.asarray(ind).ravel()]
                d_l = [np.asarray(d, float).ravel()] if d is not None else None
            else:
                ind_l = [np.asarray(x).ravel() for x in ind]
                d_l = [np.asarray(x, float).ravel() for x in d] if d is not None else None
            if len(ind_l) != len(qll):
                bad("radius_matches_bruteforce", "shape", f"{len(ind_l)} result rows for {len(qll)} points")
                return fails
            for qi in range(len(qll)):
                row = D[qi]
                got = [int(i) for i in ind_l[qi]]
                tol = TOL[qi]
                must = {int(i) for i in np.nonzero(row < r_cmp - tol)[0]}
                may = {int(i) for i in np.nonzero(row <= r_cmp + tol)[0]}
                if len(set(got)) != len(got) or not must <= set(got) or not set(got) <= may:
                    bad(
                        "radius_matches_bruteforce",
                        "wrong-set",
                        f"query (lon,lat)={qll[qi]} r={r} ({'chord' if system == 'cartesian' else 'deg'}) in_radians={in_rad}: got {sorted(got)}, brute force {sorted(must)} (+ties {sorted(may - must)})",
                    )
                    break
                if d_l is not None:
                    ctx.ev("distance_units")
                    exp = np.array([row[i] for i in got]) * unit
                    if len(d_l[qi]) != len(got) or not np.all(np.abs(d_l[qi] - exp) <= (1e-9 * np.abs(exp) + np.array([tol[i] for i in got]) * unit)):
                        bad("distance_units", "wrong-distance", f"radius query {qll[qi]} in_radians={in_rad}: returned {d_l[qi].tolist()} expected {exp.tolist()}")
                        break
        # a query is a read: the caller's coordinate array must come back untouched
        ctx.ev("query_args_unchanged")
        if not np.array_equal(np.asarray(arg), arg_before):
            bad("query_args_unchanged", "modified", f"the query array passed in was changed by the call: {np.asarray(arg).ravel()[:4].tolist()} (was {arg_before.ravel()[:4].tolist()})")
        if fails:
            return fails
    return fails
