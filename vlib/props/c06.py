"""C06 — Integration is the area-weighted sum over faces."""

import numpy as np
from hypothesis import strategies as st

from ..core import sampled_from  # noqa: E402

from .. import build, datagen, meshgen
from ..core import Failure
from .c05 import RULES

ID = "C06"
RULE = (
    "grids (hull/voronoi/lat-lon/solid meshes incl. pyramids with n_face == n_node and single polygons/prisms where "
    "element counts coincide) x face-centred arrays of rank 1-4 and five dtypes x drawn (rule, order) x a drawn history "
    "of earlier integrate/area calls on the same grid, the rule passed positionally, by keyword, or left to the documented defaults (integrate() == integrate('triangular', 4), likewise compute_face_areas / calculate_total_face_area); plus node- and edge-dimensioned arrays which must raise. "
    "Oracle: tensordot(values, areas) with areas from a *fresh* grid's compute_face_areas(rule, order); linearity; "
    "ones -> total area. Non-trivial = rank >= 2, or element counts coincide, or rule/order not default, or a prior "
    "call history; distinct by case hash."
)
ASSUMPTIONS = [
    "the areas themselves are judged by C05; here only the weighting, the dims/name/grid plumbing and the rejection rule",
    "the face dimension is the last dimension, named n_face; node/edge data are recognised by their dimension name",
    "values are small dyadic rationals; float64 results compared at 1e-12 relative, float32 at 1e-5",
    "the absolute (spherical-excess) value of an integral is asserted with C05's tolerances for the default rule and the two highest orders; at other orders only over faces up to 10 degrees across, within 10%; everything else is compared with compute_face_areas of the same rule and order",
]
BUDGET = {
    "quick": dict(shards=4, examples=200),
    "thorough": dict(shards=16, examples=2500, wall_cap_s=1500),
}


@st.composite
def _case(draw, tier):
    big = tier != "quick"
    fam = draw(sampled_from(["any", "any", "solid", "single", "mpas"]))
    radius = 1.0
    if fam == "mpas":
        # a source that supplies its own areas (areaCell, in the units of its sphere radius)
        mesh = draw(meshgen.voronoi_mesh(14, 30 if big else 22, renumber=False))
        radius = draw(sampled_from([1.0, 6371229.0]))
    elif fam == "solid":
        mesh = draw(meshgen.solid_mesh_st())
    elif fam == "single":
        mesh = draw(meshgen.hull_mesh(4, 10, partial=True))
        mesh = {"nodes": mesh["nodes"], "faces": mesh["faces"][:1], "family": "single-face"}
        used = sorted(set(mesh["faces"][0]))
        remap = {o: i for i, o in enumerate(used)}
        mesh["nodes"] = [mesh["nodes"][o] for o in used]
        mesh["faces"] = [[remap[i] for i in mesh["faces"][0]]]
    else:
        mesh = draw(meshgen.any_mesh(max_pts=34 if big else 16, tiny=True, polar=True))
    mode = draw(sampled_from(["face", "face", "face", "node", "edge"]))
    nf = len(mesh["faces"])
    c = {
        "mesh": mesh,
        "mode": mode,
        # (MPAS-like sources: the default rule in two thirds of the cases, decided by its own draw)
        "rule": ("triangular", 4) if (fam == "mpas" and draw(st.integers(0, 2)) > 0) else draw(sampled_from([("triangular", 4)] + RULES)),
        "history": draw(st.lists(sampled_from(RULES), max_size=2)),
        "rescale_returned": draw(sampled_from([False, False, True])),
        "coef": [draw(st.integers(-3, 3)), draw(st.integers(-3, 3))],
        "name": draw(sampled_from(["psi", "v", None])),
        "source": "mpas" if fam == "mpas" else "topology",
        "radius": radius,
        # how the rule reaches the call: spelled out, left to the defaults (integrate() is integrate("triangular", 4)),
        # or by keyword
        "style": draw(sampled_from(["positional", "positional", "defaults", "keywords"])),
    }
    if mode == "face":
        c["data"] = draw(datagen.data_spec(nf, vmax=8, stores=datagen.STORES))
        c["data2_seed"] = draw(st.integers(0, 2**20))
    else:
        c["data"] = {"lead": draw(st.lists(st.integers(1, 2), max_size=2)), "dtype": "float64", "scale": 8, "vmax": 4, "values": None, "seed": draw(st.integers(0, 999))}
    return c


def strategy(tier, excl):
    return _case(tier)


def classify(case):
    mesh = case["mesh"]
    ml = meshgen.mesh_labels(mesh)
    labs = ["mode:" + case["mode"], f"rank:{len(case['data']['lead']) + 1}", "dtype:" + case["data"]["dtype"]]
    coincide = [l for l in ml if "==" in l]
    labs += coincide
    default = tuple(case["rule"]) == ("triangular", 4)
    if not default:
        labs.append("non-default-rule")
    if case["history"]:
        labs.append("prior-calls")
    if case.get("source") == "mpas":
        labs.append(f"source:mpas:radius={case.get('radius', 1.0):g}:" + ("default-rule" if default else "other-rule"))
    return labs, (bool(case["data"]["lead"]) or bool(coincide) or not default or bool(case["history"]))


def _make(case):
    if case.get("source") == "mpas":
        from .. import writers

        ds, _ = writers.mpas_dataset(case["mesh"], radius=case.get("radius", 1.0))
        return build.ux().open_grid(ds)
    return build.grid_from_mesh(case["mesh"])


def run_case(case, ctx):
    from .. import facegen
    from .. import sphere as S

    ux = build.ux()
    mesh = case["mesh"]
    g = _make(case)
    rule, order = tuple(case["rule"])
    fails = []
    spec = case["data"]

    if case["mode"] in ("node", "edge"):
        n = g.n_node if case["mode"] == "node" else g.n_edge
        da, arr = datagen.uxda(g, spec, "n_" + case["mode"], n, name="v")
        ctx.ev("rejects_non_face")
        sizes = f"n_face={g.n_face} n_node={g.n_node} n_edge={g.n_edge}"
        try:
            r = da.integrate(rule, order)
        except (ValueError, NotImplementedError, TypeError):
            return fails
        site = case["mode"] + (":sizes-coincide" if n == g.n_face else "")
        fails.append(Failure("rejects_non_face", site, "returned", f"integrate() of {case['mode']}-dimensioned data returned {np.asarray(r.values).ravel()[:3]} ({sizes})"))
        return fails

    da, arr_live = datagen.uxda(g, spec, "n_face", g.n_face, name=case["name"], with_coords=True)
    arr = np.array(arr_live, copy=True)  # the expectation is computed from a private copy of the data
    # history of earlier calls on the same grid
    for hi_, (hr, ho) in enumerate([tuple(h) for h in case["history"]]):
        da.integrate(hr, ho)
        if case.get("rescale_returned") and hi_ == 0:
            # ... and a caller who converts the areas a call handed back (its own result) to square kilometres in place
            for got_a in (g.compute_face_areas(hr, ho)[0], g.compute_face_areas(rule, order)[0], g.compute_face_areas()[0]):
                if isinstance(got_a, np.ndarray) and got_a.flags.writeable:
                    got_a *= 6371.0**2
            ctx.label("history:returned-areas-rescaled-in-place")
    style = case.get("style", "positional")

    def integ(x):
        if style == "defaults" and (rule, order) == ("triangular", 4):
            return x.integrate()
        if style == "defaults" and rule == "triangular":
            return x.integrate(order=order)
        if style == "keywords":
            return x.integrate(order=order, quadrature_rule=rule)
        return x.integrate(rule, order)

    res = integ(da)
    if style == "defaults":
        ctx.label("style:defaults" + (":all" if (rule, order) == ("triangular", 4) else (":rule" if rule == "triangular" else ":none")))
    site = ("after-history" if case["history"] else "first-call") + (":mpas" if case.get("source") == "mpas" else "")
    ctx.ev("input_unchanged")
    if not np.array_equal(np.asarray(da.values), arr, equal_nan=True) or not np.array_equal(arr_live, arr, equal_nan=True):
        fails.append(Failure("input_unchanged", site, "data-modified", f"integrate() changed the variable it was called on: {np.asarray(da.values).ravel()[:4]} vs {arr.ravel()[:4]}"))
        return fails
    # reference areas from a fresh grid
    fresh = _make(case)
    areas = np.asarray(fresh.compute_face_areas(rule, order)[0], float)
    lead = tuple(spec["lead"])
    rtol = 1e-5 if spec["dtype"] == "float32" else 1e-12
    ctx.ev("dims_name_grid")
    want_dims = tuple(datagen.lead_dims(spec))
    if not isinstance(res, ux.UxDataArray) or tuple(res.dims) != want_dims or res.uxgrid is not g or res.name != da.name or res.shape != lead:
        fails.append(Failure("dims_name_grid", "integrate", "wrong", f"type {type(res).__name__} dims {getattr(res, 'dims', None)} (want {want_dims}) name {getattr(res, 'name', None)!r} (want {da.name!r}, the variable's own) same grid {getattr(res, 'uxgrid', None) is g}"))
        return fails
    got = np.asarray(res.values, float)
    exp = np.tensordot(arr.astype(float), areas, axes=([-1], [0]))
    scale = float(np.abs(arr.astype(float)) @ areas if arr.ndim == 1 else np.max(np.tensordot(np.abs(arr.astype(float)), areas, axes=([-1], [0])))) + 1e-300
    ctx.ev("weighted_sum")
    if not np.allclose(got, exp, rtol=0, atol=rtol * scale + 1e-15):
        fails.append(Failure("weighted_sum", site, "wrong", f"got {got.ravel()[:4]} expected {exp.ravel()[:4]} (dtype {spec['dtype']}, history {case['history']})"))
    # ones -> total area
    ctx.ev("ones_is_total_area")
    ones = ux.UxDataArray(np.ones(g.n_face), dims=["n_face"], uxgrid=g, name="one")
    tot = float(integ(ones).values)
    if abs(tot - float(areas.sum())) > 1e-12 * float(areas.sum()):
        fails.append(Failure("ones_is_total_area", site, "wrong", f"{tot!r} vs sum of areas {areas.sum()!r}"))
    # ... and the total must be the area of the faces on the unit sphere (exact spherical excess; the tolerance follows
    # C05's accuracy classes), whatever areas the source may have supplied in its own units
    xyz = meshgen.mesh_xyz(mesh)
    TOLC = {"<=10deg": 1e-6, "<=30deg": 1e-4, "<=65deg": 1e-2}
    ex, tl = 0.0, 0.0
    judged_rule = (rule, order) in (("triangular", 4), ("triangular", 12), ("gaussian", 10))
    mask = np.zeros(g.n_face)
    for fi, f in enumerate(mesh["faces"]):
        vs = [tuple(xyz[i]) for i in f]
        t = TOLC.get(facegen.size_class(vs)) if S.is_strictly_convex_rel(vs, 1e-3) else None
        if t is None:
            continue  # no accuracy is claimed for faces > 65 degrees across or non-convex ones (C05)
        if not judged_rule:
            # other orders: only faces up to 10 degrees across, within 10% (over such a face the integrand of the area
            # integral varies by 1 - cos(10 deg) = 1.5%, so even a one-point rule is far inside; a face that is lost
            # altogether is not)
            if t != 1e-6:
                continue
            t = 0.1
        mask[fi] = 1.0
        a_f = S.poly_area(vs)
        ex += a_f
        tl += t * a_f
    # the statement bounds the accuracy of the default rule and of the limit of rising order only (C05): at other orders
    # larger faces are not judged (a 65-degree triangle is off by 21% at triangular order 1)
    if mask.any():
        ctx.ev("total_is_spherical_area")
        part = float(ux.UxDataArray(mask, dims=["n_face"], uxgrid=g, name="m").integrate(rule, order).values)
        if abs(part - ex) > tl + 1e-12:
            fails.append(Failure("ones_is_total_area", site, "not-the-spherical-area", f"the indicator of {int(mask.sum())} faces integrates to {part!r}, these faces cover {ex!r} steradians (tolerance {tl:.3g})"))
    if style == "defaults" and (rule, order) == ("triangular", 4):
        tot2 = float(g.calculate_total_face_area())
        a_def = np.asarray(g.compute_face_areas()[0], float)
        if a_def.shape != areas.shape or not np.allclose(a_def, areas, rtol=1e-12, atol=0):
            fails.append(Failure("weighted_sum", "compute_face_areas()", "defaults-differ", f"compute_face_areas() without arguments differs from compute_face_areas('triangular', 4): {a_def[:3]} vs {areas[:3]}"))
    else:
        tot2 = float(g.calculate_total_face_area(rule, order))
    if abs(tot - tot2) > 1e-12 * abs(tot2):
        fails.append(Failure("ones_is_total_area", "calculate_total_face_area", "differs", f"{tot!r} vs {tot2!r}"))
    # linearity
    if spec["dtype"].startswith("float") or spec["dtype"].startswith("int"):
        ctx.ev("linear")
        spec2 = dict(spec, values=None, seed=case["data2_seed"])
        arr2 = datagen.materialise(spec2, g.n_face)
        a, b = case["coef"]
        comb = a * arr.astype(float) + b * arr2.astype(float)
        dims = list(da.dims)
        I = lambda x: np.asarray(ux.UxDataArray(x, dims=dims, uxgrid=g).integrate(rule, order).values, float)
        lhs = I(comb)
        rhs = a * I(arr.astype(float)) + b * I(arr2.astype(float))
        sc = np.max(np.tensordot(np.abs(comb) + np.abs(a * arr.astype(float)) + np.abs(b * arr2.astype(float)), areas, axes=([-1], [0]))) + 1e-300
        if not np.allclose(lhs, rhs, rtol=0, atol=1e-12 * sc + 1e-15):
            fails.append(Failure("linear", site, "wrong", f"I(a x + b y) {lhs.ravel()[:3]} vs a I(x) + b I(y) {rhs.ravel()[:3]}"))
    return fails
