"""C14 — Arc predicates and intersections agree with exact spherical geometry."""

import math

import numpy as np
from hypothesis import strategies as st

from ..core import sampled_from  # noqa: E402

from .. import exact
from .. import sphere as S
from ..core import Failure

ID = "C14"
RULE = (
    "cases carry the actual float vectors. (a) point-on-arc: positive and on-circle-negative cases from the nine planes "
    "in which float coordinates make det[a,b,p] vanish identically (x=0, y=0, z=0, x=+-y, y=+-z, x=+-z: equator, "
    "meridians incl. through the poles and the antimeridian, and tilted circles), the point drawn inside or beyond the "
    "arc; off-plane negatives from generic arcs with the point >= 1e-6 rad off the plane. (b) intersections of two "
    "generic arcs built around a drawn crossing point (crossing) or shifted along their circle (disjoint). (c) extreme "
    "latitude of generic arcs. Every verdict comes from exact rational arithmetic on the stored floats; a case whose "
    "margin to a decision boundary is < 1e-6 rad gives no verdict (counted). Metamorphic: endpoint swap, arc swap, "
    "rotation about the polar axis (exact quarter turns for on-plane cases). Non-trivial = verdict issued and arc not "
    "axis-aligned trivial; distinct by case hash."
)
ASSUMPTIONS = [
    "arcs have length in (0, 180) degrees; inputs are unit vectors to rounding",
    "margin rule: 1e-6 rad from every decision boundary (endpoints, plane, parallelism), as the property states",
    "returned intersection points are compared with the exact crossing at 1e-9 rad",
]
BUDGET = {
    "quick": dict(shards=4, examples=1500),
    "thorough": dict(shards=16, examples=20000, wall_cap_s=1500),
}
MARGIN = 1e-6
PLANES = ["z", "x", "y", "x=y", "x=-y", "y=z", "y=-z", "x=z", "x=-z"]
R2 = math.sqrt(0.5)


def plane_point(plane, t):
    c, s = math.cos(t), math.sin(t)
    if plane == "z":
        return [c, s, 0.0]
    if plane == "x":
        return [0.0, c, s]
    if plane == "y":
        return [c, 0.0, s]
    u = c * R2
    sg = -1.0 if "-" in plane else 1.0
    if plane.startswith("x=") and plane.endswith("y"):
        return [u, sg * u, s]
    if plane.startswith("y="):
        return [s, u, sg * u]
    return [u, s, sg * u]  # x = +-z


def _rot(v, axis, ang):
    """Rodrigues rotation of v about unit axis."""
    c, s = math.cos(ang), math.sin(ang)
    k = axis
    kv = S.cross(k, v)
    kd = S.dot(k, v)
    return [v[i] * c + kv[i] * s + k[i] * kd * (1 - c) for i in range(3)]


@st.composite
def unit_vec(draw):
    how = draw(sampled_from(["any", "any", "any", "nearpole", "pole", "antimeridian", "equator", "prime"]))
    if how == "pole":
        return [0.0, 0.0, draw(sampled_from([1.0, -1.0]))]
    if how == "nearpole":
        lat = draw(sampled_from([1, -1])) * draw(st.floats(80, 89.999))
        lon = draw(st.floats(-180, 180))
    elif how == "antimeridian":
        lon, lat = draw(sampled_from([180.0, -180.0, 179.9999, -179.9999])), draw(st.floats(-85, 85))
    elif how == "prime":
        lon, lat = draw(sampled_from([0.0, 1e-5, -1e-5])), draw(st.floats(-85, 85))
    elif how == "equator":
        lon, lat = draw(st.floats(-180, 180)), 0.0
    else:
        lon = draw(st.floats(-180, 180))
        lat = math.degrees(math.asin(draw(st.floats(-1, 1))))
    return list(S.ll2xyz(lon, lat))


@st.composite
def tangent_dir(draw, x):
    e1, e2 = _frame(x)
    a = draw(st.floats(0, 2 * math.pi))
    return [math.cos(a) * e1[i] + math.sin(a) * e2[i] for i in range(3)], a


def _frame(c):
    z = (0.0, 0.0, 1.0) if abs(c[2]) < 0.9 else (1.0, 0.0, 0.0)
    e1 = S.normalize(S.cross(z, c))
    e2 = S.cross(c, e1)
    return e1, e2


def _along(x, d, s):
    """Point at signed arc distance s from x in tangent direction d."""
    c, sn = math.cos(s), math.sin(s)
    return list(S.normalize(tuple(c * x[i] + sn * d[i] for i in range(3))))


arc_len = st.one_of(st.floats(1e-4, math.radians(179.0)), st.floats(math.radians(0.05), math.radians(60)), st.floats(math.radians(90), math.radians(179.5)))


@st.composite
def _case(draw, tier):
    kind = draw(sampled_from(["within-on", "within-on", "within-off", "cross", "cross", "disjoint", "extreme"]))
    if kind == "within-on":
        plane = draw(sampled_from(PLANES))
        t0 = draw(st.floats(-math.pi, math.pi) | sampled_from([0.0, math.pi / 2 - 0.3, math.pi - 0.2, -math.pi / 2 - 0.1, math.pi / 2]))
        ln = draw(arc_len)
        where = draw(sampled_from(["inside", "inside", "outside"]))
        if where == "inside":
            f = draw(st.floats(0.001, 0.999))
            tp = t0 + f * ln
        else:
            gap = 2 * math.pi - ln
            f = draw(st.floats(0.001, 0.999))
            tp = t0 + ln + f * gap
        a, b, p = plane_point(plane, t0), plane_point(plane, t0 + ln), plane_point(plane, tp)
        axis = False
        if draw(sampled_from([False, False, True])):
            # arcs that start or end exactly on a coordinate axis (a pole, the equator): the
            # parameters are multiples of pi/2 and the rounding residue of cos/sin is snapped to 0
            axis = True
            h = math.pi / 2
            k0 = draw(st.integers(-2, 2))
            la = draw(sampled_from([h, h, -h]) | st.floats(-3.0, 3.0).filter(lambda v: 1e-3 < abs(v) < math.pi - 1e-3))
            tq = draw(
                sampled_from([k0 * h + la + math.pi, k0 * h + math.pi, k0 * h - h, k0 * h + la / 2, k0 * h + 2 * h + la / 2])
                | st.floats(-math.pi, math.pi)
            )
            snap = lambda v: [0.0 if abs(c) < 1e-15 else (math.copysign(1.0, c) if abs(abs(c) - 1.0) < 1e-15 else c) for c in v]
            a, b, p = snap(plane_point(plane, k0 * h)), snap(plane_point(plane, k0 * h + la)), snap(plane_point(plane, tq))
        if draw(st.booleans()):
            a, b = b, a
        out = {"kind": "within", "sub": "on:" + plane, "a": a, "b": b, "p": p, "quarter": draw(st.integers(0, 3))}
        if axis:
            out["axis"] = True
        return out
    if kind == "within-off":
        x = draw(unit_vec())
        d, _ = draw(tangent_dir(x))
        ln = draw(arc_len)
        n = S.normalize(S.cross(tuple(x), tuple(d)))
        a = _along(x, d, -0.3 * ln)
        b = _along(x, d, 0.7 * ln)
        q = _along(x, d, draw(st.floats(-0.25, 0.65)) * ln)
        off = draw(sampled_from([2e-6, 1e-5, 1e-3]) | st.floats(2e-6, 1.0)) * draw(sampled_from([1, -1]))
        p = list(S.normalize(tuple(math.cos(off) * q[i] + math.sin(off) * n[i] for i in range(3))))
        return {"kind": "within", "sub": "off-plane", "a": a, "b": b, "p": p, "quarter": draw(st.integers(0, 3)), "theta": draw(st.floats(0, 2 * math.pi))}
    if kind in ("cross", "disjoint"):
        x = draw(unit_vec())
        d1, a1 = draw(tangent_dir(x))
        sep = draw(st.floats(math.radians(1.0), math.radians(179.0)))
        e1, e2 = _frame(x)
        d2 = [math.cos(a1 + sep) * e1[i] + math.sin(a1 + sep) * e2[i] for i in range(3)]
        small = st.floats(1e-5, math.radians(89)) | sampled_from([1e-5, 2e-5, 1e-4, 1e-3])
        s1, t1, s2, t2 = (draw(small) for _ in range(4))
        if draw(sampled_from([False, False, True])):
            # long arcs whose crossing lies more than 90 degrees from an end point (total length stays < 179 degrees)
            s1 = draw(st.floats(math.radians(91), math.radians(170)))
            t1 = draw(st.floats(1e-4, math.radians(178) - s1))
            if draw(st.booleans()):
                s2 = draw(st.floats(math.radians(91), math.radians(170)))
                t2 = draw(st.floats(1e-4, math.radians(178) - s2))
            if draw(st.booleans()):
                s1, t1 = t1, s1
        A1, B1 = _along(x, d1, -s1), _along(x, d1, t1)
        if kind == "cross":
            A2, B2 = _along(x, d2, -s2), _along(x, d2, t2)
        else:
            A2, B2 = _along(x, d2, s2), _along(x, d2, s2 + t2)
            if s2 + t2 >= math.pi - 1e-3:
                B2 = _along(x, d2, s2 + min(t2, 0.5))
        if draw(st.booleans()):
            A1, B1 = B1, A1
        if draw(st.booleans()):
            A2, B2 = B2, A2
        return {"kind": "intersect", "sub": kind, "a1": A1, "b1": B1, "a2": A2, "b2": B2, "theta": draw(st.floats(0, 2 * math.pi))}
    x = draw(unit_vec())
    d, _ = draw(tangent_dir(x))
    ln = draw(arc_len)
    return {"kind": "extreme", "sub": "generic", "a": x, "b": _along(x, d, ln)}


def strategy(tier, excl):
    return _case(tier)


def classify(case):
    labs = ["kind:" + case["kind"], "sub:" + case["sub"]]
    if case.get("axis"):
        labs.append("axis-aligned-endpoint")
    return labs, True


POLE_BAND = 2e-4  # library snaps |z| > 1 - 1e-8 (1.41e-4 rad from the pole) to the pole


def _in_pole_band(v):
    """Within the library's documented pole-snapping cap but not exactly at the pole: the documented
    tolerance makes the answer ambiguous there, so such cases give no verdict."""
    v = S.normalize(tuple(v))
    d = min(S.angle(v, (0.0, 0.0, 1.0)), S.angle(v, (0.0, 0.0, -1.0)))
    return 0.0 < d < POLE_BAND and not (v[0] == 0.0 and v[1] == 0.0)


def _ang(a, b):
    return S.angle(tuple(a), tuple(b))


def _rotz(v, th):
    c, s = math.cos(th), math.sin(th)
    return [c * v[0] - s * v[1], s * v[0] + c * v[1], v[2]]


def _quarter(v, k):
    x, y, z = v
    for _ in range(k % 4):
        x, y = -y, x
    return [x, y, z]


def run_case(case, ctx):
    from uxarray.grid.arcs import extreme_gca_latitude, point_within_gca
    from uxarray.grid.intersections import gca_gca_intersection

    fails = []

    def bad(oracle, site, kind, detail):
        fails.append(Failure(oracle, site, kind, detail))

    if case["kind"] == "within":
        a, b, p = case["a"], case["b"], case["p"]
        ln = _ang(a, b)
        if not (MARGIN < ln < math.pi - MARGIN):
            ctx.label("no-verdict:arc-length")
            return fails
        if any(_in_pole_band(v) for v in (a, b, p)):
            ctx.label("no-verdict:pole-snap-band")
            return fails
        onp = exact.on_plane(a, b, p)
        n = S.normalize(S.cross(tuple(a), tuple(b)))
        off = abs(math.asin(max(-1, min(1, S.dot(n, S.normalize(tuple(p)))))))
        if onp:
            if min(_ang(p, a), _ang(p, b)) < MARGIN:
                ctx.label("no-verdict:near-endpoint")
                return fails
            expect = exact.strictly_inside_arc(a, b, p)
        else:
            if off < MARGIN:
                ctx.label("no-verdict:near-plane")
                return fails
            expect = False
        ctx.label("verdict:" + ("on-arc" if expect else ("on-circle-outside" if onp else "off-plane")))
        ctx.ev("within_matches_exact")
        site = case["sub"].split(":")[0] + ("" if not onp else (":pole-arc" if _through_pole(a, b) else ":meridian" if case["sub"][3:] in ("x", "y", "x=y", "x=-y") else ":other"))
        got = bool(point_within_gca(np.array(p, float), np.array([a, b], float)))
        if got != expect:
            bad("within_matches_exact", site, "expected-" + str(expect), f"point_within_gca(p={p}, arc=[{a}, {b}]) = {got}; exact: on plane {onp}, inside {expect}; arc length {math.degrees(ln):.6f} deg")
            return fails
        ctx.ev("swap_endpoints")
        got2 = bool(point_within_gca(np.array(p, float), np.array([b, a], float)))
        if got2 != got:
            bad("swap_endpoints", site, "differs", f"{got} vs swapped {got2} for p={p} arc=[{a},{b}]")
        ctx.ev("rotate_about_pole")
        if onp:
            k = case.get("quarter", 1)
            ra, rb, rp = _quarter(a, k), _quarter(b, k), _quarter(p, k)
        else:
            th = case.get("theta", 1.0)
            ra, rb, rp = _rotz(a, th), _rotz(b, th), _rotz(p, th)
        got3 = bool(point_within_gca(np.array(rp, float), np.array([ra, rb], float)))
        if got3 != got:
            bad("rotate_about_pole", site, "differs", f"{got} vs rotated {got3} for p={p} arc=[{a},{b}] (rotated p={rp} arc=[{ra},{rb}])")
        return fails

    if case["kind"] == "intersect":
        a1, b1, a2, b2 = case["a1"], case["b1"], case["a2"], case["b2"]
        l1, l2 = _ang(a1, b1), _ang(a2, b2)
        if not (MARGIN < l1 < math.pi - MARGIN and MARGIN < l2 < math.pi - MARGIN):
            ctx.label("no-verdict:arc-length")
            return fails
        n1 = S.normalize(S.cross(tuple(a1), tuple(b1)))
        n2 = S.normalize(S.cross(tuple(a2), tuple(b2)))
        if S.norm(S.cross(n1, n2)) < 1e-4:
            ctx.label("no-verdict:near-parallel")
            return fails
        ncommon, xdir = exact.arcs_crossing(a1, b1, a2, b2)
        if ncommon is None:
            ctx.label("no-verdict:same-circle")
            return fails
        # margins: both candidate points must be >= MARGIN away from every arc end unless clearly off
        xf = S.normalize(S.cross(n1, n2))
        if any(_in_pole_band(v) for v in (a1, b1, a2, b2, xf)):
            ctx.label("no-verdict:pole-snap-band")
            return fails
        for cand in (xf, tuple(-c for c in xf)):
            for (a, b) in ((a1, b1), (a2, b2)):
                if min(_ang(cand, a), _ang(cand, b)) < MARGIN:
                    ctx.label("no-verdict:crossing-near-endpoint")
                    return fails
        ctx.label(f"verdict:{ncommon}-common")
        ctx.ev("intersections_match_exact")
        site = case["sub"]

        def call(A1, B1, A2, B2):
            r = gca_gca_intersection(np.array([A1, B1], float), np.array([A2, B2], float))
            r = np.asarray(r, float)
            return r.reshape(-1, 3) if r.size else np.zeros((0, 3))

        res = call(a1, b1, a2, b2)
        if len(res) != ncommon:
            bad("intersections_match_exact", site, f"count-{len(res)}-expected-{ncommon}", f"arcs [{a1},{b1}] x [{a2},{b2}]: returned {res.tolist()}; lengths {math.degrees(l1):.5f}, {math.degrees(l2):.5f} deg; plane angle {math.degrees(math.asin(min(1, S.norm(S.cross(n1, n2))))):.4f} deg")
            return fails
        if ncommon == 1:
            xe = exact.to_unit_float(xdir)
            if _ang(res[0], xe) > 1e-9:
                bad("intersections_match_exact", site, "wrong-point", f"returned {res[0].tolist()} exact {xe} (off by {_ang(res[0], xe):.3e} rad)")
        ctx.ev("swap_arcs")
        r2 = call(a2, b2, a1, b1)
        r3 = call(b1, a1, a2, b2)
        if len(r2) != len(res) or len(r3) != len(res):
            bad("swap_arcs", site, "count-differs", f"{len(res)} vs swapped arcs {len(r2)} / swapped endpoints {len(r3)} for [{a1},{b1}] x [{a2},{b2}]")
        ctx.ev("rotate_about_pole")
        th = case.get("theta", 1.0)
        rr = call(_rotz(a1, th), _rotz(b1, th), _rotz(a2, th), _rotz(b2, th))
        if len(rr) != len(res):
            bad("rotate_about_pole", site, "count-differs", f"{len(res)} vs rotated {len(rr)} (theta {th}) for [{a1},{b1}] x [{a2},{b2}]")
        elif len(rr) == 1 and _ang(rr[0], _rotz(list(res[0]), th)) > 1e-9:
            bad("rotate_about_pole", site, "point-differs", "rotated result is not the rotation of the result")
        return fails

    # extreme latitude
    a, b = case["a"], case["b"]
    ln = _ang(a, b)
    if not (MARGIN < ln < math.pi - 1e-3):
        ctx.label("no-verdict:arc-length")
        return fails
    lo, hi = S.arc_lat_extremes(tuple(a), tuple(b))
    # dense sampling cross-check of my own oracle (harness sanity, not a verdict on the library)
    zs = [S.slerp(tuple(a), tuple(b), k / 64.0)[2] for k in range(65)]
    if max(zs) > math.sin(hi) + 1e-9 or min(zs) < math.sin(lo) - 1e-9:
        from ..core import HarnessError

        raise HarnessError(f"oracle self-check failed for arc {a} {b}")
    ctx.ev("extreme_lat_matches")
    ctx.label("verdict:extreme" + (":apex-inside" if hi > max(math.asin(max(-1, min(1, a[2]))), math.asin(max(-1, min(1, b[2])))) + 1e-12 or lo < min(math.asin(max(-1, min(1, a[2]))), math.asin(max(-1, min(1, b[2])))) - 1e-12 else ":monotone"))
    cap = 1.0 - 1e-8

    def same_lat(x, y):
        return abs(x - y) <= 1e-9 or (abs(math.sin(x)) >= cap - 1e-12 and abs(math.sin(y)) >= cap - 1e-12 and (x > 0) == (y > 0))

    for typ, ref in (("max", hi), ("min", lo)):
        got = float(extreme_gca_latitude(np.array([a, b], float), typ))
        if not same_lat(got, ref):
            bad("extreme_lat_matches", typ, "wrong", f"extreme_gca_latitude([{a},{b}], {typ}) = {got!r}, exact {ref!r} (arc {math.degrees(ln):.4f} deg)")
        got_s = float(extreme_gca_latitude(np.array([b, a], float), typ))
        ctx.ev("swap_endpoints")
        if not same_lat(got_s, got):
            bad("swap_endpoints", "extreme:" + typ, "differs", f"{got!r} vs {got_s!r}")
    return fails


def _through_pole(a, b):
    """Does the minor arc a-b (on a meridian plane) contain a pole strictly inside?"""
    for pole in ((0.0, 0.0, 1.0), (0.0, 0.0, -1.0)):
        if exact.on_plane(a, b, pole) and exact.strictly_inside_arc(a, b, pole):
            return True
    return False
