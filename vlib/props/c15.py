"""C15 — Exported polygons and lines correspond one-to-one with faces."""

import math

import numpy as np
from hypothesis import strategies as st

from ..core import sampled_from  # noqa: E402

from .. import build, meshgen
from ..core import Failure, need

ID = "C15"
RULE = (
    "histories of 1-6 conversions on one grid (hull meshes merged into 3..8-gons, partial or global, and lat-lon grids; with "
    "and without faces across the antimeridian) carrying two face-centred variables: Grid.to_geodataframe / to_polycollection "
    "/ to_linecollection and UxDataArray.to_geodataframe / to_polycollection with drawn periodic_elements, engine, projection "
    "(None, Robinson, Mollweide with a drawn central longitude), cache and override. Every returned object is "
    "judged statelessly against the mesh: rows <-> faces, vertices = corner (lon, lat) or their cartopy images in cyclic order "
    "(float32 tolerance), the antimeridian set = faces with an edge spanning >= 180 degrees (relative to the projection's central "
    "longitude), 'exclude' drops exactly those, 'split' pieces lie in [-180, 180], do not span the antimeridian and cover the "
    "face (sampled containment both ways), data values sit on the polygons of their own faces (matched by geometry); objects "
    "returned earlier are re-inspected after every later call. A quarter of the grids carry Cartesian node coordinates at radius 6371229. A fifth of the cases are 'am-set' cases on unrestricted meshes (pole-enclosing faces, pole fans, polar rows, cubed spheres, every face listed from a drawn corner): Grid.antimeridian_face_indices and the number of elements 'exclude' leaves in frames, polygon and line collections (with and without a projection, in a drawn order) against the faces with an edge -- the closing one included -- spanning >= 180 degrees. Non-trivial = the mesh has antimeridian faces or mixed sizes "
    "and the history has >= 2 calls with different arguments; distinct by case hash."
)
ASSUMPTIONS = [
    "projections are restricted to ones that map the whole sphere to finite coordinates (no NaN polygons), and 'split' is only combined with projection None (the documented restriction); PlateCarree is not generated because the installed cartopy exposes no 'lon_0' for it (environment drift, like open_dataset)",
    "meshes are made planar-safe by construction: all longitudes rotated by 0.3713 degrees, faces with a pole inside, a corner beyond 70 degrees latitude, an edge longer than 35 degrees, a longitude extent >= 60 degrees, or a planar lon/lat area below 2 square degrees (or clockwise) dropped",
    "meshes with an edge spanning within 1e-3 degrees of 180 (for any central longitude used in the history), or with a pole node, give no verdict (the longitude of a pole node is arbitrary)",
    "a polygon's vertex list is compared after dropping the closing vertex and the repeated-first-vertex padding of short faces",
    "split pieces: tolerance of the containment test is the displacement of the cut vertices from the straight lon/lat segment (the split cuts along the geodesic) plus 1e-3 degrees",
]
BUDGET = {
    "quick": dict(shards=4, examples=120),
    "thorough": dict(shards=16, examples=1000, wall_cap_s=1800),
}
PERIODIC = ["exclude", "split", "ignore"]
CALLS = ["grid_gdf", "grid_gdf", "grid_poly", "grid_line", "da_gdf", "da_gdf", "da_poly"]


@st.composite
def _proj(draw):
    kind = draw(sampled_from(["none", "none", "robinson", "mollweide"]))
    if kind == "none":
        return ["none"]
    return [kind, draw(sampled_from([0.0, 0.0, 180.0, -90.0, 60.0]))]


@st.composite
def _step(draw):
    call = draw(sampled_from(CALLS))
    per = draw(sampled_from(PERIODIC))
    proj = draw(_proj())
    if per == "split":
        proj = ["none"]
    return {
        "call": call,
        "periodic": per,
        "engine": draw(sampled_from(["spatialpandas", "geopandas"])),
        "proj": proj,
        "cache": draw(sampled_from([True, True, False])),
        "override": draw(sampled_from([False, False, True])),
        "var": draw(st.integers(0, 1)),
    }


@st.composite
def _am_case(draw, tier):
    """Which faces cross the antimeridian, and what 'exclude' drops, on meshes the planar picture cannot judge: faces
    around a pole (whose only edge spanning >= 180 degrees may be the closing one), pole fans, polar rows, 7- and 8-gons
    listed from any corner."""
    big = tier != "quick"
    mesh = draw(meshgen.any_mesh(max_pts=34 if big else 18, partial=True, polar=True))
    obs = draw(st.lists(st.tuples(sampled_from(["property", "gdf", "poly", "line"]), sampled_from(["spatialpandas", "geopandas"]), _proj()), min_size=1, max_size=4))
    return {"kind": "am-set", "mesh": mesh, "obs": [list(o) for o in obs], "rot": draw(st.integers(0, 7))}


@st.composite
def _case(draw, tier):
    big = tier != "quick"
    if draw(st.integers(0, 4)) == 0:
        return draw(_am_case(tier))
    fam = draw(sampled_from(["hull", "latlon"]))
    if fam == "hull":
        mesh = draw(meshgen.hull_mesh(40, 70 if big else 55, partial=True, planted=False))
    else:
        mesh = meshgen.latlon_mesh(draw(st.integers(11, 18)), draw(st.integers(5, 8)), draw(sampled_from([0.0, 7.5, 33.0, 180.0])), poles=False)
        mesh["family"] = "latlon-band"
    steps = [draw(_step())]
    for _ in range(draw(st.integers(0, 5))):
        if draw(st.booleans()):
            # near-repeat: an earlier conversion again with one argument changed (the histories in which a cache
            # answers a call it should not, or a cached object is written to)
            base = dict(steps[draw(st.integers(0, len(steps) - 1))])
            what = draw(sampled_from(["cache", "cache", "cache", "override", "var", "var", "call", "call", "engine", "periodic", "proj", "same"]))
            if what == "cache":
                base["cache"] = not base["cache"]
            elif what == "override":
                base["override"] = not base["override"]
            elif what == "var":
                base["var"] = 1 - base["var"]
            elif what == "call":
                base["call"] = draw(sampled_from(CALLS))
            elif what == "engine":
                base["engine"] = "geopandas" if base["engine"] == "spatialpandas" else "spatialpandas"
            elif what == "periodic":
                base["periodic"] = draw(sampled_from(PERIODIC))
                if base["periodic"] == "split":
                    base["proj"] = ["none"]
            elif what == "proj" and base["periodic"] != "split":
                base["proj"] = draw(_proj())
            steps.append(base)
        else:
            steps.append(draw(_step()))
    return {"mesh": _planar_safe(mesh), "steps": steps, "radius": draw(sampled_from([None, None, None, 6371229.0]))}


def _planar_safe(mesh):
    """Construction, not rejection: rotate all longitudes by a fixed 0.3713 degrees (so that no node sits on
    a seam of any projection used here) and drop the faces whose planar lon/lat picture is ill-defined
    (a pole inside, a corner beyond 70 degrees latitude, an edge longer than 35 degrees, or a longitude extent >= 60 degrees); unused nodes are removed."""
    from .. import sphere as S

    nodes = [[(((p[0] + 0.3713) + 180.0) % 360.0) - 180.0, p[1]] for p in mesh["nodes"]]
    keep = []
    for f in mesh["faces"]:
        lo, hi = S.lon_cover_interval([nodes[i][0] for i in f])
        if (hi - lo) % 360.0 >= 60.0 or any(abs(nodes[i][1]) > 70.0 for i in f):
            continue
        # counter-clockwise with some area in the (unwrapped) lon/lat plane too: thin faces whose planar
        # picture has the opposite orientation to the spherical face are not faces a planar export can show
        ul = [((nodes[i][0] - lo) % 360.0, nodes[i][1]) for i in f]
        area2 = sum(ul[k][0] * ul[(k + 1) % len(ul)][1] - ul[(k + 1) % len(ul)][0] * ul[k][1] for k in range(len(ul)))
        if area2 < 4.0:
            continue
        vs = [S.ll2xyz(*nodes[i]) for i in f]
        if max(S.angle(vs[k], vs[(k + 1) % len(vs)]) for k in range(len(vs))) > math.radians(35.0):
            continue  # long edges: the geodesic and the straight lon/lat segment differ too much for a planar oracle
        if any(all(S.det3(vs[i], vs[(i + 1) % len(vs)], pole) > -1e-9 for i in range(len(vs))) for pole in ((0.0, 0.0, 1.0), (0.0, 0.0, -1.0))):
            continue
        keep.append(f)
    if not keep:
        # nothing usable: a fixed pair of triangles, one of them across the antimeridian
        return {"nodes": [[170.3713, 10.0], [-169.6287, 12.0], [175.3713, 30.0], [150.3713, 15.0]], "faces": [[0, 1, 2], [3, 0, 2]], "family": "fallback"}
    used = sorted({i for f in keep for i in f})
    re = {o: k for k, o in enumerate(used)}
    return {"nodes": [nodes[o] for o in used], "faces": [[re[i] for i in f] for f in keep], "family": mesh.get("family", "?")}


def strategy(tier, excl):
    return _case(tier)


def _wrap(lon, lon0):
    return ((np.asarray(lon, float) - lon0 + 180.0) % 360.0) - 180.0


def _am_faces(mesh, lon0):
    nodes = np.asarray(mesh["nodes"], float)
    lon = _wrap(nodes[:, 0], lon0)
    am, near = [], False
    for fi, f in enumerate(mesh["faces"]):
        hit = False
        for j in range(len(f)):
            d = abs(lon[f[j]] - lon[f[(j + 1) % len(f)]])
            if abs(d - 180.0) < 1e-3 or abs(abs(lon[f[j]]) - 180.0) < 1e-3:
                near = True
            if d >= 180.0:
                hit = True
        if hit:
            am.append(fi)
    return am, near


def classify(case):
    mesh = case["mesh"]
    if case.get("kind") == "am-set":
        am, _ = _am_faces(mesh, 0.0)
        labs = ["kind:am-set", "am-set:family:" + mesh.get("family", "?")] + ["am-set:first:" + case["obs"][0][0]]
        if am:
            labs.append("am-set:has-antimeridian-faces")
        nodes = mesh["nodes"]
        closing_only = False
        for fi in am:
            f = mesh["faces"][fi]
            f = f[case["rot"] % len(f):] + f[: case["rot"] % len(f)]
            sp = [abs(_wrap(nodes[f[j]][0], 0.0) - _wrap(nodes[f[(j + 1) % len(f)]][0], 0.0)) >= 180.0 for j in range(len(f))]
            if sp[-1] and not any(sp[:-1]):
                closing_only = True
        if closing_only:
            labs.append("am-set:only-the-closing-edge-spans")
        return sorted(set(labs)), bool(am)
    labs = [f"steps:{len(case['steps'])}", "family:" + mesh.get("family", "?")]
    am, _ = _am_faces(mesh, 0.0)
    if am:
        labs.append("has-antimeridian-faces")
    mixed = len({len(f) for f in mesh["faces"]}) > 1
    if mixed:
        labs.append("mixed-size")
    sigs = set()
    for s in case["steps"]:
        labs.append("call:" + s["call"])
        labs.append("periodic:" + s["periodic"])
        labs.append("proj:" + s["proj"][0])
        sigs.add((s["call"], s["periodic"], s["engine"], tuple(s["proj"])))
    return sorted(set(labs)), ((bool(am) or mixed) and len(sigs) >= 2)


# ----------------------------------------------------------------------------- helpers
def _projection(desc):
    import cartopy.crs as ccrs

    if desc[0] == "none":
        return None, 0.0
    lon0 = float(desc[1])
    cls = {"platecarree": ccrs.PlateCarree, "robinson": ccrs.Robinson, "mollweide": ccrs.Mollweide}[desc[0]]
    return cls(central_longitude=lon0), lon0


def _clean(verts, tol):
    v = [tuple(map(float, p)) for p in np.asarray(verts, float)]
    out = []
    for p in v:
        if not out or max(abs(p[0] - out[-1][0]), abs(p[1] - out[-1][1])) > tol:
            out.append(p)
    while len(out) > 1 and max(abs(out[0][0] - out[-1][0]), abs(out[0][1] - out[-1][1])) <= tol:
        out.pop()
    return out


def _cyclic_eq(a, b, tol, reflect=True):
    """Equal as cyclic sequences; a reversed traversal is accepted too (spatialpandas re-orients rings)."""
    if len(a) != len(b):
        return False
    n = len(a)
    if n == 0:
        return True
    for bb in ([b, list(reversed(b))] if reflect else [b]):
        for s in range(n):
            if all(max(abs(a[i][0] - bb[(i + s) % n][0]), abs(a[i][1] - bb[(i + s) % n][1])) <= tol for i in range(n)):
                return True
    return False


def _cut_displacement(lonlat):
    """For a face across the antimeridian (wrapped lon/lat corners): how far (degrees of latitude) the geodesic
    crossing of lon = +-180 lies from the crossing of the straight lon/lat segment, maximised over its edges."""
    from .. import sphere as S

    d = 0.0
    n = len(lonlat)
    for i in range(n):
        (lo1, la1), (lo2, la2) = lonlat[i], lonlat[(i + 1) % n]
        if abs(lo1 - lo2) < 180.0:
            continue
        u1 = lo1 + 360.0 if lo1 < 0 else lo1
        u2 = lo2 + 360.0 if lo2 < 0 else lo2
        t = (180.0 - u1) / (u2 - u1)
        straight = la1 + t * (la2 - la1)
        a, b = S.ll2xyz(lo1, la1), S.ll2xyz(lo2, la2)
        nrm = S.cross(a, b)
        p = S.cross(nrm, (0.0, 1.0, 0.0))
        if S.norm(p) < 1e-12:
            continue
        p = S.normalize(p)
        if p[0] > 0:
            p = (-p[0], -p[1], -p[2])
        geo = math.degrees(math.asin(max(-1.0, min(1.0, p[2]))))
        d = max(d, abs(geo - straight))
    return d


def _geom_parts(geom):
    """-> list of exterior vertex arrays of a shapely / spatialpandas geometry."""
    gt = getattr(geom, "geom_type", None)
    if gt == "Polygon":
        return [np.asarray(geom.exterior.coords)]
    if gt == "MultiPolygon":
        return [np.asarray(p.exterior.coords) for p in geom.geoms]
    # spatialpandas Polygon / MultiPolygon
    if hasattr(geom, "to_shapely"):
        return _geom_parts(geom.to_shapely())
    raise TypeError(type(geom))


def _am_reported(g):
    from ..core import WrongReturn

    v = g.antimeridian_face_indices
    if v is None:
        raise WrongReturn("Grid.antimeridian_face_indices", v)
    return sorted(int(i) for i in np.atleast_1d(v))


def _run_am_set(case, ctx):
    """Unrestricted meshes: the set of antimeridian faces and the number of elements 'exclude' leaves, for a drawn
    sequence of observations (the property itself, frames, polygon and line collections, with and without a projection)."""
    mesh = dict(case["mesh"])
    r = case["rot"]
    mesh["faces"] = [f[r % len(f):] + f[: r % len(f)] for f in mesh["faces"]]
    n_face = len(mesh["faces"])
    fails = []
    lon0s = {0.0} | {float(o[2][1]) for o in case["obs"] if o[2][0] != "none"}
    if any(_am_faces(mesh, l0)[1] for l0 in lon0s):
        ctx.label("no-verdict:edge-spans-180")
        return fails
    g = build.grid_from_mesh(mesh)
    am0, _ = _am_faces(mesh, 0.0)
    for k, (what, engine, pdesc) in enumerate(case["obs"]):
        site = f"am-set:{what}:{pdesc[0]}:{'first' if k == 0 else 'later'}"
        if what == "property":
            ctx.ev("antimeridian_set")
            got = _am_reported(g)
            if got != am0:
                fails.append(Failure("antimeridian_set", "Grid.antimeridian_face_indices", "wrong-set", f"{site}: {got}, expected {am0} (faces {[mesh['faces'][i] for i in sorted(set(got) ^ set(am0))]} with node longitudes {[[mesh['nodes'][j][0] for j in mesh['faces'][i]] for i in sorted(set(got) ^ set(am0))]})"))
                return fails
            continue
        proj, lon0 = _projection(pdesc)
        am, _ = _am_faces(mesh, lon0)
        ctx.ev("exclude_drops_exactly")
        if what == "gdf":
            n = len(need(g.to_geodataframe(periodic_elements="exclude", projection=proj, engine=engine), "columns", "Grid.to_geodataframe"))
        elif what == "poly":
            n = len(need(g.to_polycollection(periodic_elements="exclude", projection=proj), "get_paths", "Grid.to_polycollection").get_paths())
        else:
            n = len(need(g.to_linecollection(periodic_elements="exclude", projection=proj), "get_segments", "Grid.to_linecollection").get_segments())
        if n != n_face - len(am):
            fails.append(Failure("exclude_drops_exactly", site, "count", f"{n} elements left of {n_face} faces, {len(am)} of which have an edge spanning >= 180 degrees about longitude {lon0}: {am}"))
            return fails
    ctx.ev("antimeridian_set")
    got = _am_reported(g)
    if got != am0:
        fails.append(Failure("antimeridian_set", "Grid.antimeridian_face_indices", "wrong-set", f"after {[o[0] + ':' + o[2][0] for o in case['obs']]}: {got}, expected {am0}"))
    return fails


def run_case(case, ctx):
    import cartopy.crs as ccrs
    from shapely.geometry import Point, Polygon
    from shapely.ops import unary_union

    ux = build.ux()
    if case.get("kind") == "am-set":
        return _run_am_set(case, ctx)
    mesh = case["mesh"]
    nodes = np.asarray(mesh["nodes"], float)
    faces = mesh["faces"]
    n_face = len(faces)
    fails = []
    if np.any(np.abs(np.abs(nodes[:, 1]) - 90.0) < 1e-9):
        ctx.label("no-verdict:pole-node")
        return fails
    lon0s = {0.0} | {float(s["proj"][1]) for s in case["steps"] if s["proj"][0] != "none"}
    for l0 in lon0s:
        if _am_faces(mesh, l0)[1]:
            ctx.label("no-verdict:edge-spans-180")
            return fails
    g = build.grid_from_mesh(mesh, **(build.cartesian_kw(mesh, case["radius"]) if case.get("radius") else {}))
    if case.get("radius"):
        ctx.label("cartesian-radius")
    data = [np.arange(n_face, dtype=float) * 1.5 + 3.0, 1000.0 - np.arange(n_face, dtype=float) * 7.0]
    das = [ux.UxDataArray(data[k].copy(), dims=["n_face"], uxgrid=g, name=f"v{k}") for k in range(2)]
    returned = []  # (step index, kind, object, snapshot)
    prev_sig = None

    def expected_rows(step):
        """(face id, expected vertex list) per expected row, AM set, tolerance."""
        proj, lon0 = _projection(step["proj"])
        am, _ = _am_faces(mesh, lon0)
        per = step["periodic"]
        if proj is None:
            xy = np.stack([_wrap(nodes[:, 0], 0.0), nodes[:, 1]], axis=1)
            tol = 2e-4
        else:
            pts = proj.transform_points(ccrs.PlateCarree(), nodes[:, 0], nodes[:, 1])
            xy = pts[:, :2]
            tol = 1e-5 * float(np.nanmax(np.abs(xy))) + 1e-3
        ids = [fi for fi in range(n_face) if not (per == "exclude" and fi in am)]
        return ids, xy, am, tol

    def snapshot(kind, obj):
        if kind == "gdf":
            cols = list(obj.columns)
            geoms = [[np.array(p, copy=True) for p in _geom_parts(gm)] for gm in obj["geometry"]]
            vals = {c: np.array(obj[c], copy=True) for c in cols if c != "geometry"}
            return ("gdf", cols, geoms, vals)
        if kind == "poly":
            arr = obj.get_array()
            return ("poly", [np.array(p.vertices, copy=True) for p in obj.get_paths()], None if arr is None else np.array(arr, copy=True))
        return ("line", [np.array(s, copy=True) for s in obj.get_segments()])

    def same_snapshot(a, b):
        if a[0] != b[0]:
            return False
        if a[0] == "gdf":
            if a[1] != b[1] or len(a[2]) != len(b[2]):
                return False
            for ga, gb in zip(a[2], b[2]):
                if len(ga) != len(gb) or any(x.shape != y.shape or not np.array_equal(x, y, equal_nan=True) for x, y in zip(ga, gb)):
                    return False
            return all(np.array_equal(a[3][c], b[3][c], equal_nan=True) for c in a[3])
        if a[0] == "poly":
            if len(a[1]) != len(b[1]) or any(x.shape != y.shape or not np.array_equal(x, y, equal_nan=True) for x, y in zip(a[1], b[1])):
                return False
            if (a[2] is None) != (b[2] is None):
                return False
            return a[2] is None or np.array_equal(a[2], b[2], equal_nan=True)
        return len(a[1]) == len(b[1]) and all(x.shape == y.shape and np.array_equal(x, y, equal_nan=True) for x, y in zip(a[1], b[1]))

    def judge_split_piece_set(fi, parts, site, si):
        """AM face under 'split': pieces within [-180,180], none spanning, covering the face."""
        f = faces[fi]
        lon = _wrap(nodes[f, 0], 0.0)
        lat = nodes[f, 1]
        # unwrapped face: western longitudes shifted by +360
        ulon = np.where(lon < 0, lon + 360.0, lon)
        unwrapped = Polygon(list(zip(ulon, lat)))
        polys = []
        disp = 0.0
        for p in parts:
            p = np.asarray(p, float)
            if np.any(np.abs(p[:, 0]) > 180.0 + 1e-4) or np.any(np.abs(p[:, 1]) > 90.0 + 1e-4):
                return f"piece leaves [-180, 180] x [-90, 90]: {p.tolist()}"
            if np.any(np.abs(np.diff(p[:, 0])) >= 180.0):
                return f"piece has an edge spanning the antimeridian: {p.tolist()}"
            polys.append(Polygon([(x + 360.0 if x < 0 or (abs(x + 180.0) < 1e-4) else x, y) for x, y in p]))
            for x, y in p:
                if min(max(abs(x - a), abs(y - b)) for a, b in zip(lon, lat)) > 2e-4:
                    if abs(abs(x) - 180.0) > 1e-3:
                        return f"piece vertex ({x}, {y}) is neither a corner of the face nor on the antimeridian"
                    # displacement from the straight segment in unwrapped lon/lat
                    d = unwrapped.exterior.distance(Point(180.0, y))
                    disp = max(disp, d)
        for a, b in zip(lon, lat):
            if not any(min(max(abs(a - x), abs(b - y)) for x, y in np.asarray(p, float)) <= 2e-4 for p in parts):
                return f"corner ({a}, {b}) of the face is a vertex of no piece"
        union = unary_union([q.buffer(0) for q in polys])
        tol = max(disp, _cut_displacement(list(zip(lon, lat)))) + 1e-3
        rs = np.random.RandomState(fi + 17)
        w = rs.dirichlet(np.ones(len(f)), size=24)
        for ww in w:
            pt = Point(float(ww @ ulon), float(ww @ lat))
            if unwrapped.contains(pt) and not union.buffer(tol).contains(pt):
                return f"point {pt.wkt} of the face is not covered by the pieces (tolerance {tol:.4g})"
        for q in polys:
            c = q.representative_point()
            if not unwrapped.buffer(tol).contains(c):
                return f"piece contains {c.wkt}, which is outside the face (tolerance {tol:.4g})"
        return None

    def judge_rows(rows, step, site, si, values=None, var=None, rows_are_pieces=False, piece_faces=None):
        """rows: list of (list of vertex arrays).  values: per-row data (or None)."""
        ids, xy, am, tol = expected_rows(step)
        per = step["periodic"]
        ctx.ev("polygons_are_faces")
        if per == "split" and rows_are_pieces:
            # one row per piece (PolyCollection): assign every row to the face that contains its
            # representative point; the rows of a face must be consecutive and faces must come in order
            planar, raw = {}, {}
            for fi in ids:
                f = faces[fi]
                lon = _wrap(nodes[f, 0], 0.0)
                tolf = 1e-6
                if fi in am:
                    tolf = _cut_displacement(list(zip(lon, nodes[f, 1]))) + 1e-3
                    lon = np.where(lon < 0, lon + 360.0, lon)
                raw[fi] = Polygon(list(zip(lon, nodes[f, 1]))).buffer(0)
                planar[fi] = raw[fi].buffer(tolf)
            # candidate faces of every row: a whole non-AM face (exact match), or the AM faces of which every non-cut
            # vertex of the piece is a corner
            cand_rows = []
            for r, row in enumerate(rows):
                q = Polygon(np.asarray(row[0], float)).buffer(0)
                if q.is_empty:
                    fails.append(Failure("polygons_are_faces", site, "degenerate-polygon", f"step {si}: polygon {r} is degenerate: {np.asarray(row[0]).tolist()}"))
                    return False
                got_clean = _clean(row[0], tol)
                exact = [fi for fi in ids if fi not in am and _cyclic_eq(got_clean, [tuple(xy[j]) for j in faces[fi]], tol)]
                if exact:
                    cand_rows.append(exact[:1])
                    continue
                pv = [(float(x), float(y)) for x, y in np.asarray(row[0], float) if abs(abs(float(x)) - 180.0) > 1e-3]
                cands = []
                for fi in ids:
                    if fi not in am:
                        continue
                    corners = [tuple(xy[j]) for j in faces[fi]]
                    if all(any(max(abs(p[0] - c_[0]), abs(p[1] - c_[1])) <= 2e-4 for c_ in corners) for p in pv):
                        cands.append(fi)
                if not cands:
                    fails.append(Failure("polygons_are_faces", site, "polygon-in-no-face", f"step {si}: polygon {r} {np.asarray(row[0]).tolist()} is no face and no piece of a face across the antimeridian"))
                    return False
                cand_rows.append(cands)

            def covers(assign):
                # every corner of every face appears in one of the pieces assigned to it
                for fi in ids:
                    mine = [np.asarray(rows[r][0], float) for r in range(len(rows)) if assign[r] == fi]
                    if not mine:
                        return False
                    for j in faces[fi]:
                        c_ = tuple(xy[j])
                        if not any(np.any(np.maximum(np.abs(m[:, 0] - c_[0]), np.abs(m[:, 1] - c_[1])) <= 2e-4) for m in mine):
                            return False
                return True

            owner = None
            budget = [4000]

            def search(r, last, acc):
                nonlocal owner
                if owner is not None or budget[0] <= 0:
                    return
                if r == len(rows):
                    budget[0] -= 1
                    if covers(acc):
                        owner = list(acc)
                    return
                for fi in cand_rows[r]:
                    if fi >= last:
                        search(r + 1, fi, acc + [fi])

            search(0, -1, [])
            if owner is None:
                fails.append(Failure("polygons_are_faces", site, "row-order", f"step {si}: the {len(rows)} polygons cannot be grouped, in order, into the faces {list(ids)} such that every face's corners appear in its own pieces (candidates per polygon: {cand_rows})"))
                return False
            if owner != sorted(owner) or sorted(set(owner)) != list(ids):
                fails.append(Failure("polygons_are_faces", site, "row-order", f"step {si}: polygons belong to faces {owner}; expected every face of {list(ids)} once (or, across the antimeridian, in consecutive pieces), in order"))
                return False
            groups = [(fi, [rows[r][0] for r in range(len(rows)) if owner[r] == fi], [r for r in range(len(rows)) if owner[r] == fi]) for fi in ids]
        else:
            if len(rows) != len(ids):
                kind = "row-count"
                fails.append(Failure("exclude_drops_exactly" if per == "exclude" else "polygons_are_faces", site, kind, f"step {si}: {len(rows)} rows, expected {len(ids)} ({n_face} faces, antimeridian faces {am}, periodic_elements={per})"))
                return False
            groups = [(fi, rows[k], [k]) for k, fi in enumerate(ids)]
        for fi, parts, ridx in groups:
            exp = [tuple(xy[j]) for j in faces[fi]]
            if per == "split" and fi in am:
                ctx.ev("split_covers")
                if not parts:
                    fails.append(Failure("split_covers", site, "no-pieces", f"step {si}: face {fi} crosses the antimeridian but has no polygon"))
                    return False
                msg = judge_split_piece_set(fi, parts, site, si)
                if msg:
                    fails.append(Failure("split_covers", site, "bad-pieces", f"step {si}: face {fi} {[tuple(nodes[j]) for j in faces[fi]]}: {msg}"))
                    return False
            else:
                if len(parts) != 1:
                    fails.append(Failure("polygons_are_faces", site, "multipart", f"step {si}: row of face {fi} has {len(parts)} parts"))
                    return False
                got = _clean(parts[0], tol)
                if not _cyclic_eq(got, exp, tol):
                    # is it some other face?
                    other = next((fj for fj in range(n_face) if _cyclic_eq(got, [tuple(xy[j]) for j in faces[fj]], tol)), None)
                    fails.append(Failure("polygons_are_faces", site, "wrong-vertices" if other is None else "wrong-face", f"step {si}: row {ridx[0]} should be face {fi} with vertices {exp}, got {got}" + ("" if other is None else f" (= face {other})")))
                    return False
            if values is not None:
                ctx.ev("data_follow_faces")
                for r in ridx:
                    if r >= len(values) or values[r] != data[var][fi]:
                        fails.append(Failure("data_follow_faces", site, "value-on-wrong-polygon", f"step {si}: polygon {r} is face {fi} (value {data[var][fi]}) but carries {values[r] if r < len(values) else 'nothing'}"))
                        return False
        if values is not None and len(values) != sum(len(g_[2]) for g_ in groups):
            fails.append(Failure("data_follow_faces", site, "value-count", f"step {si}: {len(values)} values for {sum(len(g_[2]) for g_ in groups)} polygons"))
            return False
        return True

    for si, step in enumerate(case["steps"]):
        proj, lon0 = _projection(step["proj"])
        per = step["periodic"]
        call = step["call"]
        sig = (call, per, step["engine"], tuple(step["proj"]))
        hist = "first" if prev_sig is None else ("same-args" if prev_sig == sig else "after-other-args")
        prev_sig = sig
        site = f"{call}:{per}:{step['proj'][0]}:{step['engine'] if 'gdf' in call else '-'}:{hist}"
        kw = dict(periodic_elements=per, projection=proj, cache=step["cache"], override=step["override"])
        # the public list of antimeridian faces, read for the first time only after the first conversion (in a drawn
        # half of the cases before it): it must not depend on what was converted before, with which projection
        if si > 0 or step["var"] == 0:
            ctx.ev("antimeridian_set")
            am0, _ = _am_faces(mesh, 0.0)
            got_am = _am_reported(g)
            if got_am != am0:
                fails.append(Failure("antimeridian_set", "Grid.antimeridian_face_indices", "wrong-set", f"before step {si} (after {[s_['call'] + ':' + s_['proj'][0] for s_ in case['steps'][:si]]}): {got_am} expected {am0}"))
                return fails
        if call in ("grid_gdf", "da_gdf"):
            if call == "grid_gdf":
                obj = need(g.to_geodataframe(engine=step["engine"], **kw), "columns", "Grid.to_geodataframe")
                var = None
            else:
                var = step["var"]
                obj = need(das[var].to_geodataframe(engine=step["engine"], **kw), "columns", "UxDataArray.to_geodataframe")
            ctx.ev("engine_respected")
            if type(obj).__module__.split(".")[0] != step["engine"]:
                fails.append(Failure("depends_only_on_args", site, "engine", f"step {si}: engine={step['engine']!r} requested, the frame is a {type(obj).__module__}.{type(obj).__name__}"))
                return fails
            cols = list(obj.columns)
            want_cols = ["geometry"] if var is None else ["geometry", f"v{var}"]
            if cols != want_cols:
                fails.append(Failure("depends_only_on_args", site, "columns", f"step {si}: columns {cols}, expected {want_cols}"))
                return fails
            rows = [_geom_parts(gm) for gm in obj["geometry"]]
            vals = None if var is None else np.asarray(obj[f"v{var}"], float)
            if not judge_rows(rows, step, site, si, values=vals, var=var):
                return fails
            returned.append((si, "gdf", obj, snapshot("gdf", obj)))
        elif call in ("grid_poly", "da_poly"):
            if call == "grid_poly":
                obj = need(g.to_polycollection(**kw), "get_paths", "Grid.to_polycollection")
                var, vals = None, None
            else:
                var = step["var"]
                obj = need(das[var].to_polycollection(**kw), "get_paths", "UxDataArray.to_polycollection")
                arr = obj.get_array()
                vals = None if arr is None else np.asarray(arr, float)
                if vals is None:
                    fails.append(Failure("data_follow_faces", site, "no-data", f"step {si}: PolyCollection carries no array"))
                    return fails
            rows = [[p.vertices] for p in obj.get_paths()]
            if not judge_rows(rows, step, site, si, values=vals, var=var, rows_are_pieces=True):
                return fails
            returned.append((si, "poly", obj, snapshot("poly", obj)))
        else:
            obj = need(g.to_linecollection(**kw), "get_segments", "Grid.to_linecollection")
            segs = [np.asarray(s) for s in obj.get_segments()]
            ctx.ev("lines_are_face_boundaries")
            if per != "split":
                ids, xy, am, tol = expected_rows(step)
                if len(segs) != len(ids):
                    fails.append(Failure("polygons_are_faces", site, "line-count", f"step {si}: {len(segs)} boundary lines, expected {len(ids)}"))
                    return fails
                for k, fi in enumerate(ids):
                    if not _cyclic_eq(_clean(segs[k], tol), [tuple(xy[j]) for j in faces[fi]], tol):
                        fails.append(Failure("polygons_are_faces", site, "line-vertices", f"step {si}: line {k} should be the boundary of face {fi} {[tuple(xy[j]) for j in faces[fi]]}, got {_clean(segs[k], tol)}"))
                        return fails
            returned.append((si, "line", obj, snapshot("line", obj)))
        # ---- objects handed out earlier must not have changed
        ctx.ev("returned_objects_stable")
        for (sj, kind, o, snap0) in returned[:-1]:
            if not same_snapshot(snap0, snapshot(kind, o)):
                fails.append(Failure("returned_objects_stable", site, "earlier-object-changed", f"step {si}: the {kind} object returned at step {sj} changed after this call"))
                return fails
    # ---- final sweep: the plain frame of the grid, asked once more with every argument set the history used,
    # is what those arguments alone determine (in particular it carries no data column left by an earlier call)
    seen_args = []
    for step in case["steps"]:
        if "gdf" in step["call"]:
            key = (step["periodic"], step["engine"], tuple(step["proj"]))
            if key not in seen_args:
                seen_args.append(key)
    for per, engine, pdesc in seen_args:
        proj, lon0 = _projection(list(pdesc))
        ctx.ev("depends_only_on_args")
        obj = g.to_geodataframe(periodic_elements=per, projection=proj, engine=engine)
        if list(obj.columns) != ["geometry"]:
            fails.append(Failure("depends_only_on_args", f"grid_gdf:{per}:{pdesc[0]}:{engine}:final-sweep", "columns", f"after the history {[s_['call'] + ('' if s_['cache'] else ':nocache') for s_ in case['steps']]} Grid.to_geodataframe has columns {list(obj.columns)}"))
            return fails
        st_ = {"call": "grid_gdf", "periodic": per, "engine": engine, "proj": list(pdesc), "cache": True, "override": False, "var": 0}
        if not judge_rows([_geom_parts(gm) for gm in obj["geometry"]], st_, f"grid_gdf:{per}:{pdesc[0]}:{engine}:final-sweep", len(case["steps"]), values=None, var=None):
            return fails
    ctx.ev("antimeridian_set")
    am0, _ = _am_faces(mesh, 0.0)
    got_am = _am_reported(g)
    if got_am != am0:
        fails.append(Failure("antimeridian_set", "Grid.antimeridian_face_indices", "wrong-set", f"after the history {[s_['call'] + ':' + s_['proj'][0] for s_ in case['steps']]}: {got_am} expected {am0}"))
    return fails
