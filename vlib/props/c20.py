"""C20 — Grid equality distinguishes any difference in coordinates or connectivity."""

import copy

import numpy as np
from hypothesis import strategies as st

from ..core import sampled_from  # noqa: E402

from .. import build, meshgen
from ..core import Failure

ID = "C20"
RULE = (
    "pairs (grid, variant) generated from hull/voronoi/lat-lon/solid meshes; variant kinds: identical rebuild, "
    "copy(), one longitude changed, one latitude changed (by 1e-9..5 degrees or by one ulp), both changed, one connectivity "
    "entry changed, a padded slot turned into a corner or a corner into padding (same table shape), two corners "
    "swapped, one extra node, one extra face, same arrays under another source format, non-Grid object. "
    "For grids built from Cartesian face vertices the expectation follows the points handed in. "
    "Non-trivial = a pair differing in exactly one lon / lat / connectivity entry or element count; distinct by case hash."
)
ASSUMPTIONS = [
    "perturbed longitudes stay inside (-180, 180) so the normalisation in Grid.__init__ cannot undo the difference",
    "grids are built through Grid.from_topology in standard form; only __eq__/__ne__ are under test",
]
BUDGET = {
    "quick": dict(shards=2, examples=250),
    "thorough": dict(shards=16, examples=1500),
}

KINDS = ["lon", "lat", "conn", "grow", "shrink", "ulp", "swap", "lonlat", "extra_node", "extra_face", "format", "nongrid", "same", "copy", "copy_edit", "copy_edit", "resplit", "pad_column"]
NONTRIVIAL = {"lon", "lat", "conn", "swap", "extra_node", "extra_face", "grow", "shrink", "ulp", "copy_edit", "resplit"}


@st.composite
def _case(draw, tier):
    mesh = draw(meshgen.any_mesh(max_pts=14 if tier == "quick" else 40))
    kind = draw(sampled_from(KINDS))
    v = {"kind": kind}
    nn, nf = len(mesh["nodes"]), len(mesh["faces"])
    if kind in ("lon", "lat", "lonlat"):
        v["index"] = draw(st.integers(0, nn - 1))
        v["delta"] = draw(sampled_from([1e-9, 1e-6, 1e-3, 0.5, 3.0]) | st.floats(1e-9, 5.0))
        v["sign"] = draw(sampled_from([-1, 1]))
    elif kind == "conn":
        v["face"] = draw(st.integers(0, nf - 1))
        v["pos"] = draw(st.integers(0, 7))
        v["shift"] = draw(st.integers(1, max(1, nn - 1)))
    elif kind in ("swap", "grow", "shrink", "resplit"):
        v["face"] = draw(st.integers(0, nf - 1))
        v["pos"] = draw(st.integers(0, 7))
    elif kind == "ulp":
        v["index"] = draw(st.integers(0, nn - 1))
        v["coord"] = draw(sampled_from([0, 1]))
        v["sign"] = draw(sampled_from([-1, 1]))
    elif kind == "extra_face":
        v["face"] = draw(st.integers(0, nf - 1))
    elif kind == "copy_edit":
        # a copy, then one entry of one side's stored arrays edited in place (through .values)
        v["what"] = draw(sampled_from(["conn", "conn", "lon", "lat"]))
        v["side"] = draw(sampled_from(["copy", "orig"]))
        v["index"] = draw(st.integers(0, nn - 1))
        v["face"] = draw(st.integers(0, nf - 1))
    elif kind == "nongrid":
        v["obj"] = draw(sampled_from(["none", "int", "str", "dataset", "ndarray", "tuple"]))
    # constructor and history: grids from Cartesian face vertices derive lon/lat lazily; derived quantities may
    # have been materialised on one side only before the comparison
    ctor = draw(sampled_from(["topology", "topology", "topology", "vertices-xyz", "vertices-latlon"]))
    if ctor != "topology" and kind not in ("lon", "lat", "lonlat", "same", "copy", "nongrid", "copy_edit"):
        ctor = "topology"
    if ctor != "topology" and "delta" in v:
        v["delta"] = max(v["delta"], 1e-6)
    derived = ["edge_node_connectivity", "node_face_connectivity", "face_areas", "node_lon", "node_x", "face_lon", "n_edge", "bounds"]
    hist = {
        "g1": sorted(draw(st.sets(sampled_from(derived), max_size=3))) if draw(st.booleans()) else [],
        "g2": sorted(draw(st.sets(sampled_from(derived), max_size=3))) if draw(st.booleans()) else [],
    }
    return {"mesh": mesh, "variant": v, "ctor": ctor, "history": hist}


def strategy(tier, excl):
    return _case(tier)


def classify(case):
    k = case["variant"]["kind"]
    labels = [f"kind:{k}"] + [l for l in meshgen.mesh_labels(case["mesh"]) if l.startswith("family") or l in ("mixed-size", "partial")]
    labels.append("ctor:" + case.get("ctor", "topology"))
    h = case.get("history", {})
    if h.get("g1") != h.get("g2"):
        labels.append("derived-on-one-side-only")
    return labels, k in NONTRIVIAL


def _variant_mesh(mesh, v):
    """Returns (mesh2, expect_equal)."""
    m = copy.deepcopy(mesh)
    k = v["kind"]
    if k in ("lon", "lonlat"):
        i = v["index"]
        old = m["nodes"][i][0]
        new = old + v["sign"] * v["delta"]
        if not (-179.9 < new < 179.9):
            new = old - v["sign"] * v["delta"]
        if not (-179.9 < new < 179.9):
            new = 0.123 if old != 0.123 else 0.456
        m["nodes"][i][0] = new
    if k in ("lat", "lonlat"):
        i = v["index"]
        old = m["nodes"][i][1]
        new = old + v["sign"] * v["delta"]
        if not (-90 <= new <= 90):
            new = old - v["sign"] * v["delta"]
        m["nodes"][i][1] = new
    if k == "conn":
        f = m["faces"][v["face"]]
        p = v["pos"] % len(f)
        f[p] = (f[p] + v["shift"]) % len(m["nodes"])
    if k == "swap":
        f = m["faces"][v["face"]]
        p = v["pos"] % len(f)
        q = (p + 1) % len(f)
        f[p], f[q] = f[q], f[p]
    if k == "ulp":
        i, c = v["index"], v["coord"]
        old = m["nodes"][i][c]
        lim = 179.0 if c == 0 else 89.0
        target = -1e9 if (v["sign"] < 0 and old > -lim) or old >= lim else 1e9
        m["nodes"][i][c] = float(np.nextafter(old, target))
    if k == "grow":
        # a padded slot becomes a corner: prefer a face shorter than the table width
        W = max(len(f) for f in m["faces"])
        short = [i for i, f in enumerate(m["faces"]) if len(f) < W]
        fi = short[v["face"] % len(short)] if short else v["face"]
        f = m["faces"][fi]
        cand = [n for n in range(len(m["nodes"])) if n not in f]
        if cand:
            f.append(cand[v["pos"] % len(cand)])
    if k == "shrink":
        big = [i for i, f in enumerate(m["faces"]) if len(f) > 3]
        if big:
            m["faces"][big[v["face"] % len(big)]].pop()
    if k == "resplit":
        # the same nodes in the same row-major order, cut into rows at another place: the last corner of one face
        # becomes the first of the next (or the first of the next the last of this one)
        nfa = len(m["faces"])
        for off in range(nfa):
            i = (v["face"] + off) % nfa
            j = (i + 1) % nfa
            if j != i + 1:
                continue
            if len(m["faces"][i]) >= 4:
                m["faces"][j].insert(0, m["faces"][i].pop())
                break
            if len(m["faces"][j]) >= 4:
                m["faces"][i].append(m["faces"][j].pop(0))
                break
    if k == "extra_node":
        m["nodes"].append([12.25, -33.5])
    if k == "extra_face":
        m["faces"].append(list(m["faces"][v["face"]]))
    changed = (m["nodes"] != mesh["nodes"]) or (m["faces"] != mesh["faces"])
    return m, not changed


def run_case(case, ctx):
    ux = build.ux()
    mesh, v = case["mesh"], case["variant"]
    k = v["kind"]
    fails = []
    W = max(len(f) for f in mesh["faces"])

    ctor = case.get("ctor", "topology")

    def mk(m):
        INT_DTYPE, FILL = build.consts()
        nodes = np.asarray(m["nodes"], float)
        w = max(W, max(len(f) for f in m["faces"]))
        if ctor == "topology":
            return ux.Grid.from_topology(nodes[:, 0].copy(), nodes[:, 1].copy(), build.padded_faces(m, width=w), fill_value=FILL)
        from .. import sphere as S

        dim = 2 if ctor == "vertices-latlon" else 3
        arr = np.full((len(m["faces"]), w, dim), float(FILL))
        for i, f in enumerate(m["faces"]):
            arr[i, : len(f)] = [m["nodes"][j] if dim == 2 else S.ll2xyz(*m["nodes"][j]) for j in f]
        return ux.Grid.from_face_vertices(arr, latlon=(dim == 2))

    g1 = mk(mesh)
    for q in case.get("history", {}).get("g1", []):
        getattr(g1, q)

    def chk(oracle, cond, detail):
        ctx.ev(oracle)
        if not cond:
            fails.append(Failure(oracle, f"kind:{k}:{ctor}", "wrong", detail + f" (constructor {ctor}, derived before comparing: {case.get('history')})"))

    # reflexive
    chk("reflexive", (g1 == g1) is True and (g1 != g1) is False, "g == g is not True")

    if k == "nongrid":
        obj = {
            "none": None,
            "int": 3,
            "str": "grid",
            "dataset": g1._ds,
            "ndarray": np.zeros(3),
            "tuple": (1, 2),
        }[v["obj"]]
        r = g1.__eq__(obj)
        chk("non_grid_false", r is False, f"Grid.__eq__({v['obj']}) returned {r!r}")
        r2 = g1.__ne__(obj)
        chk("ne_is_negation", r2 is True, f"Grid.__ne__({v['obj']}) returned {r2!r}")
        return fails

    if k == "copy_edit":
        INT_DTYPE, FILL = build.consts()
        g2 = g1.copy()
        chk("copy_equals", (g1 == g2) is True or bool(g1 == g2), "a fresh copy does not equal its source")
        tgt, oth = (g2, g1) if v["side"] == "copy" else (g1, g2)
        twin = mk(mesh)
        if v["what"] == "conn":
            tab = tgt.face_node_connectivity.values
            row = tab[v["face"] % tab.shape[0]]
            cur = int(row[0])
            tab[v["face"] % tab.shape[0], 0] = next(n for n in range(tgt.n_node + 1) if n != cur and n < tgt.n_node) if tgt.n_node > 1 else cur
        elif v["what"] == "lon":
            arr = tgt.node_lon.values
            arr[v["index"] % len(arr)] += 0.25 if arr[v["index"] % len(arr)] < 100 else -0.25
        else:
            arr = tgt.node_lat.values
            arr[v["index"] % len(arr)] += 0.25 if arr[v["index"] % len(arr)] < 80 else -0.25
        # the edited side differs from the untouched one, which still equals an independent grid of the same arrays
        e_to, e_ot = (tgt == oth), (oth == tgt)
        chk("eq_iff_same", not bool(e_to) and not bool(e_ot), f"after editing one {v['what']} entry of the {v['side']} in place, the copy and the original still compare equal ({e_to!r} / {e_ot!r})")
        chk("ne_is_negation", bool(tgt != oth) and bool(oth != tgt), f"!= after the in-place edit: {(tgt != oth)!r} / {(oth != tgt)!r}")
        chk("eq_iff_same", bool(oth == twin) and bool(twin == oth), f"the untouched side no longer equals an independent grid built from the same arrays after the other side's {v['what']} entry was edited")
        return fails
    if k == "copy":
        g2 = g1.copy()
        expect = True
    elif k == "format":
        # identical arrays, other source format
        import warnings

        with warnings.catch_warnings():
            warnings.simplefilter("ignore")
            g2 = ux.Grid(mk(mesh)._ds, source_grid_spec="UGRID")
        expect = False
    elif k == "pad_column":
        # the same faces in a table one column wider (all padding): whether such tables count as identical is not
        # something the statement decides; only symmetry and the negation are judged
        INT_DTYPE, FILL = build.consts()
        nodes_ = np.asarray(mesh["nodes"], float)
        g2 = ux.Grid.from_topology(nodes_[:, 0].copy(), nodes_[:, 1].copy(), build.padded_faces(mesh, width=W + 1), fill_value=FILL)
        expect = None
    else:
        m2, expect = _variant_mesh(mesh, v)
        g2 = mk(m2)
        if ctor == "vertices-xyz" and not expect:
            # the grid is built from Cartesian points: what counts is whether those differ (the longitude of a
            # pole is not part of its position); differences at rounding level give no verdict
            from .. import sphere as S

            d = max(float(np.max(np.abs(np.asarray(S.ll2xyz(*a)) - np.asarray(S.ll2xyz(*b))))) for a, b in zip(mesh["nodes"], m2["nodes"]))
            expect = True if d == 0.0 else (None if d < 1e-12 else False)
            # a changed point inside the library's documented pole cap (|z| > 1 - 1e-8) may be reported as the pole
            if expect is False and any(a != b and (abs(a[1]) > 89.99 or abs(b[1]) > 89.99) for a, b in zip(mesh["nodes"], m2["nodes"])):
                expect = None

    if k != "copy":
        for q in case.get("history", {}).get("g2", []):
            # a table with one entry changed need not describe a proper mesh any more (repeated corners, faces with
            # an antipodal edge): only quantities that do not depend on the faces' geometry are derived on it
            if k in ("conn", "grow", "shrink", "swap", "extra_face", "resplit") and q in ("face_areas", "bounds", "face_lon"):
                continue
            getattr(g2, q)
    e12, e21 = (g1 == g2), (g2 == g1)
    n12, n21 = (g1 != g2), (g2 != g1)
    if expect is not None:
        chk("eq_iff_same", bool(e12) == expect, f"g1 == g2 gave {e12!r}, expected {expect} for variant {v}")
    chk("symmetric", bool(e12) == bool(e21), f"g1==g2 {e12!r} but g2==g1 {e21!r}")
    chk("ne_is_negation", bool(n12) == (not bool(e12)) and bool(n21) == (not bool(e21)), f"== {e12!r}/{e21!r}, != {n12!r}/{n21!r}")
    chk("returns_bool", isinstance(e12, (bool, np.bool_)) and isinstance(n12, (bool, np.bool_)), f"types {type(e12)}, {type(n12)}")
    return fails
