"""C05 — Face areas are the spherical-polygon areas, invariantly."""

import math

import numpy as np
from hypothesis import strategies as st

from ..core import sampled_from  # noqa: E402

from .. import build, facegen, meshgen
from .. import sphere as S
from ..core import Failure

ID = "C05"
RULE = (
    "(a) every quadrature table enumerated exhaustively (gaussian 1..10, triangular 1,4,8,10,12: moment exactness, "
    "weights, point ranges); (b) single strictly convex faces (3-8 corners; corners on a small circle or planar convex "
    "hull in the gnomonic chart; centre anywhere incl. poles, antimeridian, prime meridian; size classes <=10/30/65/90 "
    "degrees across) put through a battery: default-rule accuracy vs the exact spherical excess, non-negativity at every drawn "
    "(rule, order), convergence at the highest orders, start-corner / renumbering / rigid-rotation / lonlat-vs-xyz "
    "invariance, additivity under a drawn diagonal split, cached face_areas vs fresh default after a drawn history of "
    "other area calls; (c) closed hull meshes with all faces <=65 degrees: per-face accuracy, face renumbering, 4*pi "
    "tiling, equal areas when the same mesh carries Cartesian node coordinates on a sphere of radius 2.5 or 6371229, "
    "and when its node_lon / node_lat are stored in single precision. Non-trivial = face is not a triangle, or touches a pole / the antimeridian, or a non-default order is "
    "used; distinct by case hash."
)
EXHAUSTIVE_NOTE = "all 15 quadrature tables are checked completely (finite); faces and meshes are sampled"
ASSUMPTIONS = [
    "exact area = Van Oosterom-Strackee solid angle summed over a fan (exact for convex faces)",
    "accuracy is asserted only for strictly convex faces up to 65 degrees across, as the property states",
    "an n-point 'gaussian' table must be exact to degree >= 2n-3 (holds for Gauss-Legendre and for the Gauss-Lobatto "
    "rule the library ships as order 9); a triangular table of order N must be exact to total degree N",
]
BUDGET = {
    "quick": dict(shards=4, examples=180),
    "thorough": dict(shards=16, examples=2500, wall_cap_s=1700),
}
TRI_ORDERS = [1, 4, 8, 10, 12]
GAUSS_ORDERS = list(range(1, 11))
RULES = [("triangular", o) for o in TRI_ORDERS] + [("gaussian", o) for o in GAUSS_ORDERS]
TOL = {"<=10deg": 1e-6, "<=30deg": 1e-4, "<=65deg": 1e-2}


# ----------------------------------------------------------------------------- enumerated: tables
def enumerate_cases(tier, shard, nshards, ctx):
    for i, (rule, order) in enumerate(RULES):
        if i % nshards == shard:
            yield {"kind": "table", "rule": rule, "order": order}


def _check_table(case, ctx):
    from uxarray.grid.area import get_gauss_quadratureDG, get_tri_quadratureDG

    rule, n = case["rule"], case["order"]
    fails = []
    site = f"{rule}:{n}"
    ctx.ev("tables_exact")
    if rule == "gaussian":
        dG, dW = get_gauss_quadratureDG(n)
        x, w = np.asarray(dG, float)[0], np.asarray(dW, float)
        if x.shape != (n,) or w.shape != (n,):
            return [Failure("tables_exact", site, "shape", f"{x.shape} {w.shape}")]
        if np.any(x < -1e-15) or np.any(x > 1 + 1e-15) or np.any(w <= 0):
            fails.append(Failure("tables_exact", site, "range", f"points {x} weights {w}"))
        deg = max(0, 2 * n - 3) if n > 1 else 1
        for k in range(deg + 1):
            err = abs(float(np.sum(w * x**k)) - 1.0 / (k + 1))
            if err > 1e-13:
                fails.append(Failure("tables_exact", site, "moment", f"int_0^1 x^{k}: error {err:.3e}"))
                break
        if not np.allclose(np.sort(x), np.sort(1 - x), atol=1e-14) or not np.allclose(w, w[::-1], atol=1e-14):
            fails.append(Failure("tables_exact", site, "asymmetric", f"{x} {w}"))
    else:
        dG, dW = get_tri_quadratureDG(n)
        p, w = np.asarray(dG, float), np.asarray(dW, float)
        if p.ndim != 2 or p.shape[1] != 3 or w.shape != (p.shape[0],):
            return [Failure("tables_exact", site, "shape", f"{p.shape} {w.shape}")]
        if np.abs(p.sum(axis=1) - 1).max() > 1e-13 or p.min() < 0:
            fails.append(Failure("tables_exact", site, "barycentric", f"row sums {p.sum(axis=1)}"))
        for a in range(n + 1):
            for b in range(n + 1 - a):
                ex = 2.0 * math.factorial(a) * math.factorial(b) / math.factorial(a + b + 2)
                for (i, j) in ((0, 1), (1, 2), (0, 2)):
                    err = abs(float(np.sum(w * p[:, i] ** a * p[:, j] ** b)) - ex)
                    if err > 5e-14:
                        fails.append(Failure("tables_exact", site, "moment", f"x^{a} y^{b} (coords {i},{j}): error {err:.3e}"))
                        return fails
    return fails


# ----------------------------------------------------------------------------- generated
@st.composite
def _case(draw, tier):
    kind = draw(sampled_from(["face", "face", "face", "mesh"]))
    if kind == "mesh":
        mesh = draw(meshgen.hull_mesh(20, 46 if tier == "quick" else 90, partial=False, planted=True))
        return {
            "kind": "mesh",
            "mesh": mesh,
            "fperm_seed": draw(st.integers(0, 2**16)),
            "radius": draw(sampled_from([None, None, 2.5, 6371229.0])),
            "float32_source": draw(sampled_from([False, False, True])),
            "rule": draw(sampled_from(RULES)),
        }
    face = draw(facegen.convex_face(max_class=3, tiny=True))
    k = len(face["lonlat"])
    n_orders = 3 if tier == "quick" else 6
    c = {
        "kind": "face",
        "face": face,
        "orders": draw(st.lists(sampled_from(RULES), min_size=1, max_size=n_orders, unique=True)),
        "start": draw(st.integers(1, k - 1)),
        "perm": draw(st.permutations(list(range(k)))),
        "quat": [draw(st.floats(-1, 1)) for _ in range(4)],
        "split": sorted(draw(st.lists(st.integers(0, k - 1), min_size=2, max_size=2, unique=True))) if k >= 4 else None,
        # earlier calls on the grid whose cached areas are judged: other rules and the default one, totals, reads of the
        # cached areas, and a caller who rescales the array a call handed back (its own result) in place
        "history": draw(st.lists(st.tuples(sampled_from(RULES + [["triangular", 4], ["triangular", 4]]), sampled_from([True, True, False]), sampled_from(["compute", "total", "scale", "scale", "read-cached"])), max_size=4)),
        "read_cached_first": draw(st.booleans()),
    }
    return c


def strategy(tier, excl):
    return _case(tier)


def classify(case):
    if case["kind"] == "table":
        return [f"table:{case['rule']}"], True
    if case["kind"] == "mesh":
        labs = ["kind:mesh"] + [l for l in meshgen.mesh_labels(case["mesh"]) if l in ("mixed-size", "pole-node", "antimeridian-face")]
        return labs, True
    f = case["face"]
    vs = facegen.face_vectors(f)
    k = len(vs)
    labs = ["kind:face", f"corners:{k}", "size:" + facegen.size_class(vs), "centre:" + f["how"], "shape:" + f["shape"]]
    if facegen.diameter_deg(vs) < 0.05:
        labs.append("tiny-face(<0.05deg)")
    lons = [p[0] for p in f["lonlat"]]
    am = any(abs(lons[i] - lons[(i + 1) % k]) > 180 for i in range(k))
    if am:
        labs.append("crosses-antimeridian")
    pole = f["how"] in ("npole", "spole")
    nondefault = any(tuple(o) != ("triangular", 4) for o in case["orders"])
    if case["history"]:
        labs.append("cache-history")
    return labs, (k > 3 or am or pole or nondefault)


def _grid(lonlat, faces):
    INT_DTYPE, FILL = build.consts()
    ll = np.asarray(lonlat, float)
    mesh = {"nodes": ll.tolist(), "faces": faces}
    return build.ux().Grid.from_topology(ll[:, 0].copy(), ll[:, 1].copy(), build.padded_faces(mesh), fill_value=FILL)


def _area(g, rule="triangular", order=4, latlon=True):
    a, j = g.compute_face_areas(quadrature_rule=rule, order=order, latlon=latlon)
    return np.asarray(a, float)


def _quat_norm(q):
    n = math.sqrt(sum(x * x for x in q))
    if n < 1e-3:
        return (1.0, 0.0, 0.0, 0.0)
    return tuple(x / n for x in q)


def run_case(case, ctx):
    if case["kind"] == "table":
        return _check_table(case, ctx)
    if case["kind"] == "mesh":
        return _run_mesh(case, ctx)
    return _run_face(case, ctx)


def _run_face(case, ctx):
    f = case["face"]
    ll = [list(p) for p in f["lonlat"]]
    vs = facegen.face_vectors(f)
    k = len(vs)
    exact = S.poly_area(vs)
    cls = facegen.size_class(vs)
    tol = TOL.get(cls)
    fails = []

    def bad(oracle, site, kind, detail):
        fails.append(Failure(oracle, site, kind, detail))

    base = list(range(k))
    g = _grid(ll, [base])
    if case.get("read_cached_first"):
        # history: the cached default areas / jacobian exist before any other rule or order is asked for
        _ = g.face_areas.values, g.face_jacobian
    a_def = float(_area(g)[0])

    ctx.ev("nonnegative")
    if not (a_def >= 0) or not math.isfinite(a_def):
        bad("nonnegative", "triangular:4", "negative-or-nan", f"area {a_def}")
    if tol is not None:
        ctx.ev("accuracy_default")
        if abs(a_def - exact) > tol * exact + 1e-13:
            bad("accuracy_default", cls, "too-inaccurate", f"area {a_def!r} exact {exact!r} rel err {abs(a_def - exact) / exact:.3e} > {tol}")

    # ---- every drawn (rule, order)
    for rule, order in [tuple(o) for o in case["orders"]]:
        a = float(_area(g, rule, order)[0])
        ctx.ev("nonnegative")
        if not (a >= 0) or not math.isfinite(a):
            bad("nonnegative", f"{rule}:{order}", "negative-or-nan", f"area {a}")
            continue
        # (no accuracy is asserted at intermediate orders: the statement bounds the default rule and the limit only;
        # every table's exactness is checked exhaustively in the enumerated part)

    # ---- convergence at the highest orders
    if tol is not None:
        for rule, order in (("triangular", 12), ("gaussian", 10)):
            ctx.ev("converges")
            a = float(_area(g, rule, order)[0])
            if abs(a - exact) > max(1e-6 * exact, 1e-13):
                bad("converges", f"{rule}:{order}", "not-converged", f"area {a!r} exact {exact!r} rel {abs(a - exact) / exact:.3e}")

    # ---- start corner
    s = case["start"] % k
    rot = base[s:] + base[:s]
    a_rot = float(_area(_grid(ll, [rot]))[0])
    ctx.ev("start_corner")
    lim = (2 * tol * exact if tol is not None else 0.2 * exact) + 1e-13
    if abs(a_rot - a_def) > lim:
        bad("start_corner", "triangular:4", "differs", f"{a_def!r} vs {a_rot!r} (start {s}), allowed {lim:.3e}")
    if tol is not None:
        hi = float(_area(g, "triangular", 12)[0])
        hi_rot = float(_area(_grid(ll, [rot]), "triangular", 12)[0])
        if abs(hi - hi_rot) > max(2e-6 * exact, 1e-13):
            bad("start_corner", "triangular:12", "differs", f"{hi!r} vs {hi_rot!r}")

    # ---- node renumbering (same corner sequence): identical up to rounding
    perm = list(case["perm"])  # perm[new] = old
    inv = {old: new for new, old in enumerate(perm)}
    ll_p = [ll[old] for old in perm]
    a_perm = float(_area(_grid(ll_p, [[inv[i] for i in base]]))[0])
    ctx.ev("renumber")
    if abs(a_perm - a_def) > 1e-12 * max(exact, a_def) + 1e-16:
        bad("renumber", "nodes", "differs", f"{a_def!r} vs {a_perm!r}")

    # ---- rigid rotation
    q = _quat_norm(case["quat"])
    vr = [S.quat_rotate(q, v) for v in vs]
    if all(abs(v[2]) < 1 - 1e-6 for v in vr):
        ll_r = [list(S.xyz2ll(v)) for v in vr]
        a_r = float(_area(_grid(ll_r, [base]))[0])
        ctx.ev("rotation")
        if abs(a_r - a_def) > 1e-9 * exact + 1e-15:
            bad("rotation", "triangular:4", "differs", f"{a_def!r} vs rotated {a_r!r}")

    # ---- lon/lat vs Cartesian input
    ctx.ev("latlon_vs_xyz")
    a_xyz = float(_area(g, latlon=False)[0])
    if abs(a_xyz - a_def) > 1e-9 * exact + 1e-15:
        bad("latlon_vs_xyz", "triangular:4", "differs", f"latlon {a_def!r} vs cartesian {a_xyz!r} (exact {exact!r})")

    # ---- additivity under a diagonal split
    sp = case.get("split")
    if sp and tol is not None:
        i, j = sp
        if (j - i) >= 2 and (k - (j - i)) >= 2:
            p1 = base[i : j + 1]
            p2 = base[j:] + base[: i + 1]
            g2 = _grid(ll, [p1, p2])
            parts = _area(g2)
            ctx.ev("subdivision_additive")
            if abs(float(parts.sum()) - a_def) > 3 * tol * exact + 1e-13:
                bad("subdivision_additive", "triangular:4", "differs", f"pieces {parts.tolist()} sum {parts.sum()!r} whole {a_def!r}")
            ph = _area(g2, "triangular", 12)
            hi = float(_area(g, "triangular", 12)[0])
            if abs(float(ph.sum()) - hi) > max(3e-6 * exact, 1e-13):
                bad("subdivision_additive", "triangular:12", "differs", f"pieces sum {ph.sum()!r} whole {hi!r}")

    # ---- cached face_areas equals a fresh default computation, whatever was called before
    gh = _grid(ll, [base])
    for (rule, order), latlon, how in [(tuple(h[0]), h[1], h[2]) for h in case["history"]]:
        if how == "total":
            gh.calculate_total_face_area(rule, order)
        elif how == "read-cached":
            _ = float(np.asarray(gh.face_areas.values, float)[0])
        elif how == "scale":
            got_a, got_j = gh.compute_face_areas(rule, order, latlon) if (rule, order, latlon) != ("triangular", 4, True) else gh.compute_face_areas()
            if isinstance(got_a, np.ndarray) and got_a.flags.writeable:
                got_a *= 6371.0**2  # the caller converts its own result to square kilometres
                ctx.label("history:returned-areas-rescaled-in-place")
        else:
            gh.compute_face_areas(rule, order, latlon)
    ctx.ev("cache_equals_fresh")
    cached = float(np.asarray(gh.face_areas.values, float)[0])
    if abs(cached - a_def) > 1e-12 * max(exact, a_def) + 1e-16:
        bad("cache_equals_fresh", "after-history" if case["history"] else "first-read", "differs", f"face_areas {cached!r} fresh default {a_def!r} history {case['history']}")
    again = float(np.asarray(gh.compute_face_areas()[0], float)[0])
    if abs(again - a_def) > 1e-12 * max(exact, a_def) + 1e-16:
        bad("cache_equals_fresh", "default-call-after-history", "differs", f"compute_face_areas() {again!r}, on a fresh grid {a_def!r}; history {case['history']}")
    gh.compute_face_areas("gaussian", 1)
    cached2 = float(np.asarray(gh.face_areas.values, float)[0])
    if cached2 != cached:
        bad("cache_equals_fresh", "after-later-call", "changed", f"{cached!r} -> {cached2!r}")
    # calls that leave everything to the documented defaults are the default rule ("triangular", order 4)
    gd_ = _grid(ll, [base])
    a_noargs = float(np.asarray(gd_.compute_face_areas()[0], float)[0])
    t_noargs = float(_grid(ll, [base]).calculate_total_face_area())
    if abs(a_noargs - a_def) > 1e-12 * max(exact, a_def) + 1e-16 or abs(t_noargs - a_def) > 1e-12 * max(exact, a_def) + 1e-16:
        bad("cache_equals_fresh", "defaults", "differs", f"compute_face_areas() {a_noargs!r}, calculate_total_face_area() {t_noargs!r}, default rule spelled out {a_def!r}")
    return fails


def _run_mesh(case, ctx):
    import random

    mesh = case["mesh"]
    fails = []
    xyz = meshgen.mesh_xyz(mesh)
    faces = mesh["faces"]
    fv = [[tuple(xyz[i]) for i in f] for f in faces]
    exact = np.array([S.poly_area(v) for v in fv])
    classes = [facegen.size_class(v) for v in fv]
    convex = [S.is_strictly_convex(v, 1e-9) for v in fv]
    tols = np.array([TOL.get(c, np.nan) if cv else np.nan for c, cv in zip(classes, convex)])
    g = build.grid_from_mesh(mesh)
    a = _area(g)
    ctx.ev("nonnegative")
    if np.any(~(a >= 0)):
        fails.append(Failure("nonnegative", "mesh", "negative-or-nan", f"{a[~(a >= 0)][:3]}"))
    ok = ~np.isnan(tols)
    ctx.ev("accuracy_default", int(ok.sum()))
    badm = ok & (np.abs(a - exact) > np.where(ok, tols, 0) * exact + 1e-13)
    if badm.any():
        i = int(np.argmax(badm))
        fails.append(Failure("accuracy_default", classes[i], "too-inaccurate", f"mesh face {i} ({len(faces[i])} corners): {a[i]!r} exact {exact[i]!r}"))
    # face renumbering
    rnd = random.Random(case["fperm_seed"])
    order = list(range(len(faces)))
    rnd.shuffle(order)
    rule, o = tuple(case["rule"])
    a_r = _area(g, rule, o)
    m2 = {"nodes": mesh["nodes"], "faces": [faces[i] for i in order]}
    a2 = _area(build.grid_from_mesh(m2), rule, o)
    ctx.ev("renumber")
    if not np.allclose(a2, a_r[order], rtol=1e-12, atol=1e-16):
        i = int(np.argmax(np.abs(a2 - a_r[order])))
        fails.append(Failure("renumber", "faces", "differs", f"{rule}:{o} new face {i} (old {order[i]}, {len(faces[order[i]])} corners): {a2[i]!r} vs {a_r[order[i]]!r}"))
    # the same mesh carrying Cartesian node coordinates on a sphere of another radius (as MPAS / Exodus sources do):
    # areas are those of the unit sphere either way
    if case.get("radius"):
        ctx.ev("radius_invariant")
        gr = build.grid_from_mesh(mesh, **build.cartesian_kw(mesh, case["radius"]))
        for latlon in (True, False):
            a_u = np.asarray(g.compute_face_areas(quadrature_rule=rule, order=o, latlon=latlon)[0], float)
            a_s = np.asarray(gr.compute_face_areas(quadrature_rule=rule, order=o, latlon=latlon)[0], float)
            if a_u.shape != a_s.shape or not np.allclose(a_s, a_u, rtol=1e-10, atol=1e-15):
                i = int(np.argmax(np.abs(a_s - a_u))) if a_u.shape == a_s.shape else 0
                fails.append(Failure("radius_invariant", f"latlon={latlon}", "differs", f"{rule}:{o} face {i}: {a_s[i] if a_u.shape == a_s.shape else a_s.shape!r} with node_x/y/z at radius {case['radius']}, {a_u[i] if a_u.shape == a_s.shape else a_u.shape!r} on the unit sphere"))
                break
    # a single-precision source of the same mesh: same areas as the double-precision grid of the points its stored
    # values denote (Cartesian coordinates derived in single precision are only good to ~1e-7, hence the looser bound)
    if case.get("float32_source"):
        ctx.ev("single_precision_source")
        m32 = dict(mesh, nodes=[[float(np.float32(a)), float(np.float32(b))] for a, b in mesh["nodes"]])
        g64, g32 = build.grid_from_mesh(m32), build.grid_from_mesh(m32, coord_dtype="float32")
        for latlon, rt in ((True, 1e-9), (False, 1e-4)):
            a_u = np.asarray(g64.compute_face_areas(quadrature_rule=rule, order=o, latlon=latlon)[0], float)
            a_s = np.asarray(g32.compute_face_areas(quadrature_rule=rule, order=o, latlon=latlon)[0], float)
            if a_u.shape != a_s.shape or not np.allclose(a_s, a_u, rtol=rt, atol=1e-15):
                fails.append(Failure("single_precision_source", f"latlon={latlon}", "differs", f"{rule}:{o}: float32 node_lon/node_lat give {a_s[:3]}, the same points in float64 {a_u[:3]}"))
                break
    # tiling
    if ok.all():
        ctx.ev("tiling_4pi")
        lim = float(np.sum(tols * exact)) + 1e-12
        if abs(float(a.sum()) - 4 * math.pi) > lim:
            fails.append(Failure("tiling_4pi", "triangular:4", "differs", f"sum {a.sum()!r} vs 4pi, allowed {lim:.3e}"))
        tot = float(g.calculate_total_face_area())
        if abs(tot - float(a.sum())) > 1e-12 * 4 * math.pi:
            fails.append(Failure("tiling_4pi", "calculate_total_face_area", "differs", f"{tot!r} vs {a.sum()!r}"))
    return fails
