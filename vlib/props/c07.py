"""C07 — Encoding a grid and reading it back preserves the grid."""

import os

import numpy as np
from hypothesis import strategies as st

from ..core import sampled_from  # noqa: E402

from .. import build, meshgen, writers
from .. import sphere as S
from ..core import Failure
from . import c01

ID = "C07"
RULE = (
    "histories over a pool of 1-3 grids (hull / Voronoi / lat-lon / solid meshes, mixed sizes, partial or global; built from "
    "lon/lat topology arrays (C-ordered, Fortran-ordered, transposed or strided views), from Cartesian face vertices, from an MPAS-like source carrying its own tables, or read from a SCRIP source (face rows padded by a repeated corner)): 1-8 steps, "
    "each either materialising one lazily derived quantity on one grid (15 kinds incl. edges, centres, areas, bounds, "
    "distances), replacing a grid by the re-opened result of one of its encodings (conversion chains), or encoding one grid to 'ugrid' / 'exodus' / 'scrip' (to_xarray or encode_as), optionally through a NetCDF "
    "file. After every encode: the result re-opened with ux.open_grid has the same faces (order kept for UGRID/SCRIP, multiset "
    "for Exodus); for UGRID every variable / coordinate / dimension named by the topology variable exists; the dataset can be "
    "Also tiny / micro patches (cells down to 2e-6 degrees, judged by the tolerance-free count of distinct corner nodes per face) and node tables with unused (orphan) entries. "
    "written to NetCDF and read back. Non-trivial = a mixed-size grid is encoded, or an encode follows a materialisation, or a "
    "second grid is encoded after a first; distinct by case hash."
)
ASSUMPTIONS = [
    "expected faces come from the abstract mesh the grid was built from (positions; node numbering is free)",
    "attribute values beyond the existence of what they name are not asserted; Exodus may regroup faces by size",
    "float64 throughout; position equality 1e-7 rad / pole cap",
]
BUDGET = {
    "quick": dict(shards=4, examples=120),
    "thorough": dict(shards=16, examples=1500, wall_cap_s=1800),
}
QUANTITIES = [
    "edge_node_connectivity", "face_edge_connectivity", "edge_face_connectivity", "node_face_connectivity", "face_face_connectivity",
    "face_lon", "edge_lon", "node_x", "face_x", "edge_x", "face_areas", "bounds", "n_nodes_per_face", "edge_node_distances",
    "edge_face_distances", "hole_edge_indices",
]
FORMATS = ["ugrid", "exodus", "scrip"]


@st.composite
def _gridspec(draw, big):
    src = draw(sampled_from(["topology", "topology", "vertices-xyz", "mpas", "scrip"]))
    if src == "mpas":
        mesh = draw(meshgen.voronoi_mesh(6, 16 if big else 10, renumber=False))
    else:
        fam = draw(sampled_from(["hull", "hull", "latlon", "solid", "tiny", "single"]))
        if fam == "tiny":
            mesh = draw(meshgen.tiny_patch_mesh(micro=True))
        elif fam == "single":
            # a grid of one face (its connectivity may be held as a one-dimensional table)
            m0 = draw(meshgen.hull_mesh(4, 12, partial=True))
            f0 = m0["faces"][draw(st.integers(0, 50)) % len(m0["faces"])]
            used = sorted(set(f0))
            mesh = {"nodes": [m0["nodes"][o] for o in used], "faces": [[used.index(i) for i in f0]], "family": "single-face"}
        elif fam == "hull":
            mesh = draw(meshgen.hull_mesh(4, 20 if big else 10, partial=True))
        elif fam == "latlon":
            mesh = draw(meshgen.latlon_mesh_st())
        else:
            mesh = draw(meshgen.solid_mesh_st())
        mesh.pop("centers", None)
        if src == "topology" and draw(st.integers(0, 5)) == 0:
            mesh = meshgen.with_orphan_nodes(draw, mesh, draw(sampled_from([2, 9])))
    return {"mesh": mesh, "source": src, "radius": draw(sampled_from([1.0, 1.0, 2.5, 6371229.0])), "layout": draw(sampled_from(build.LAYOUTS)), "lon360": draw(st.booleans())}


@st.composite
def _case(draw, tier):
    big = tier != "quick"
    grids = draw(st.lists(_gridspec(big), min_size=1, max_size=3))
    n = len(grids)
    steps = []
    for _ in range(draw(st.integers(1, 8))):
        kind = draw(st.integers(0, 9))
        if kind == 0:
            # conversion chains: the grid is replaced by what one of the encoders + the reader make of it
            steps.append(["reopen", draw(st.integers(0, n - 1)), draw(sampled_from(FORMATS))])
        elif kind <= 6:
            steps.append(["enc", draw(st.integers(0, n - 1)), draw(sampled_from(FORMATS)), draw(sampled_from(["to_xarray", "to_xarray", "encode_as"])), draw(sampled_from([False, False, True]))])
        else:
            steps.append(["mat", draw(st.integers(0, n - 1)), draw(sampled_from(QUANTITIES))])
    if not any(s[0] == "enc" for s in steps):
        steps.append(["enc", 0, draw(sampled_from(FORMATS)), "to_xarray", False])
    return {"grids": grids, "steps": steps}


def strategy(tier, excl):
    return _case(tier)


def classify(case):
    labs = [f"grids:{len(case['grids'])}", f"steps:{len(case['steps'])}"]
    mixed = [len({len(f) for f in g["mesh"]["faces"]}) > 1 for g in case["grids"]]
    nontrivial = False
    mat_seen, enc_seen = set(), set()
    for s in case["steps"]:
        if s[0] == "mat":
            mat_seen.add(s[1])
            labs.append("mat:" + s[2])
        elif s[0] == "reopen":
            labs.append("reopen:" + s[2])
        else:
            labs.append("enc:" + s[2])
            if s[4]:
                labs.append("via-file")
            if mixed[s[1]]:
                labs.append("enc-mixed-size")
                nontrivial = True
            if s[1] in mat_seen:
                labs.append("enc-after-materialise")
                nontrivial = True
            if enc_seen - {s[1]}:
                labs.append("enc-after-other-grid")
                nontrivial = True
            enc_seen.add(s[1])
    for g in case["grids"]:
        labs.append("source:" + g["source"])
        if g["source"] == "topology" and g.get("layout", "C") != "C":
            labs.append("layout:" + g["layout"])
    return sorted(set(labs)), nontrivial


def _build_grid(spec):
    ux = build.ux()
    mesh = spec["mesh"]
    if spec["source"] == "topology":
        return build.grid_from_mesh(mesh, layout=spec.get("layout", "C"))
    if spec["source"] == "scrip":
        # a grid read from a SCRIP source keeps the format's repeated-last-corner padding in its face rows
        ds, _ = writers.scrip_dataset(mesh, {"lon360": bool(spec.get("lon360"))})
        return ux.open_grid(ds)
    if spec["source"] == "vertices-xyz":
        INT_DTYPE, FILL = build.consts()
        xyz = meshgen.mesh_xyz(mesh) * spec.get("radius", 1.0)  # Cartesian sources need not be on the unit sphere
        width = max(len(f) for f in mesh["faces"])
        arr = np.full((len(mesh["faces"]), width, 3), float(FILL))
        for i, f in enumerate(mesh["faces"]):
            arr[i, : len(f)] = [xyz[k] for k in f]
        return ux.Grid.from_face_vertices(arr, latlon=False)
    ds, _ = writers.mpas_dataset(mesh, radius=spec.get("radius", 1.0))
    return ux.open_grid(ds)


def _ugrid_self_consistent(ds, fails, site, ctx):
    ctx.ev("self_consistent")
    topo = [v for v in ds.variables if ds[v].attrs.get("cf_role") == "mesh_topology"]
    if len(topo) != 1:
        fails.append(Failure("self_consistent", site, "topology-variable", f"{len(topo)} mesh_topology variables"))
        return
    attrs = ds[topo[0]].attrs
    for k, v in attrs.items():
        if k.endswith("_coordinates"):
            for name in str(v).split():
                if name not in ds.variables:
                    fails.append(Failure("self_consistent", site, "missing-coordinate", f"{k} names {name!r}, absent from the dataset"))
                    return
        elif k.endswith("_connectivity"):
            if str(v) not in ds.variables:
                fails.append(Failure("self_consistent", site, "missing-connectivity", f"{k} names {v!r}, absent from the dataset"))
                return
        elif k.endswith("_dimension") and k != "topology_dimension":
            if str(v) not in ds.dims:
                fails.append(Failure("self_consistent", site, "missing-dimension", f"{k} names {v!r}, not a dimension of the dataset (dims {list(ds.dims)})"))
                return


def run_case(case, ctx):
    ux = build.ux()
    fails = []
    grids = [_build_grid(s) for s in case["grids"]]
    expected = []
    for s in case["grids"]:
        xyz = meshgen.mesh_xyz(s["mesh"])
        expected.append([[tuple(xyz[i]) for i in f] for f in s["mesh"]["faces"]])
    mat_seen = set()
    enc_seen = set()
    order_lost = set()  # grids that went through Exodus (which regroups faces by size): judged as multisets from then on
    chain = {}
    for si, st_ in enumerate(case["steps"]):
        if st_[0] == "mat":
            _, gi, q = st_
            getattr(grids[gi], q)
            mat_seen.add(gi)
            continue
        if st_[0] == "reopen":
            _, gi, fmt = st_
            grids[gi] = ux.open_grid(grids[gi].to_xarray(fmt))
            chain[gi] = chain.get(gi, "") + ">" + fmt
            if fmt == "exodus":
                order_lost.add(gi)
            continue
        _, gi, fmt, api, via_file = st_
        g = grids[gi]
        hist = ("after-mat" if gi in mat_seen else "fresh") + ("+after-other" if enc_seen - {gi} else "")
        mixed = len({len(f) for f in case["grids"][gi]["mesh"]["faces"]}) > 1
        site = f"{fmt}:{case['grids'][gi]['source']}{chain.get(gi, '')}:{'mixed' if mixed else 'uniform'}:{hist}"
        if case["grids"][gi]["source"] == "topology" and case["grids"][gi].get("layout", "C") != "C":
            site += ":layout-" + case["grids"][gi]["layout"]
        enc_seen.add(gi)
        if api == "encode_as":
            ds = g.encode_as({"ugrid": "UGRID", "exodus": "Exodus", "scrip": "SCRIP"}[fmt])
        else:
            ds = g.to_xarray(fmt)
        before = len(fails)
        if fmt == "ugrid":
            _ugrid_self_consistent(ds, fails, site, ctx)
        ctx.ev("roundtrip_faces")
        back = ux.open_grid(ds)
        if c01._standard_form(back, fails, site, ctx):
            c01._faces_match(back, expected[gi], fails, site, ctx, as_multiset=(fmt == "exodus" or gi in order_lost))
        # rename oracle for this property
        for f in fails[before:]:
            if f.oracle in ("faces_match", "standard_form"):
                f.oracle = "roundtrip_faces"
        if len(fails) > before:
            return fails
        if via_file or si == len(case["steps"]) - 1:
            ctx.ev("netcdf_writable")
            path = ctx.tmp_path(".nc")
            try:
                try:
                    ds.to_netcdf(path)
                except Exception as e:  # noqa
                    fails.append(Failure("netcdf_writable", site, "raises:" + type(e).__name__, f"step {si}: to_netcdf of the {fmt} encoding failed: {e!r}"[:600]))
                    return fails
                back2 = ux.open_grid(path)
                b2 = len(fails)
                if c01._standard_form(back2, fails, site + ":file", ctx):
                    c01._faces_match(back2, expected[gi], fails, site + ":file", ctx, as_multiset=(fmt == "exodus" or gi in order_lost))
                for f in fails[b2:]:
                    f.oracle = "roundtrip_faces"
                del back2
            finally:
                try:
                    os.remove(path)
                except OSError:
                    pass
            if fails:
                return fails
    return fails
