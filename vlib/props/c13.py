"""C13 — Face latitude-longitude bounds enclose the face and are tight."""

import math

import numpy as np
from hypothesis import strategies as st

from ..core import sampled_from  # noqa: E402

from .. import build, facegen, meshgen
from .. import sphere as S
from ..core import Failure

ID = "C13"
RULE = (
    "strictly convex spherical faces with 3-8 corners and edges < 90 deg built by construction (corners on a small circle "
    "or convex hull in the gnomonic chart; planted: centre at a pole, near a pole, on the antimeridian / prime meridian / "
    "equator; wide faces whose lowest corner starts a poleward-bulging edge; faces with a corner exactly at a pole; wide faces around a pole reaching or crossing the equator, edges up to 150 deg), corners listed counter-clockwise or (a third of the single faces) clockwise, every "
    "traversal start, alone or as the faces of a generated hull/lat-lon mesh (mixed sizes with padding). Oracle: corners, "
    "64 slerp samples and the analytic apex of every edge must lie in the reported box (2e-8 rad, twice the library's ERROR_TOLERANCE); latitude bounds must be "
    "attained (1e-7 rad); the longitude interval must be the shortest cover of the corner longitudes (longitude is monotone "
    "along a great-circle arc that misses the poles) or the full circle when a pole is strictly inside. A quarter of the grids also carry Cartesian node coordinates on a sphere of radius 1, 2.5 or 6371229. Non-trivial = not "
    "(a face away from poles and meridians whose latitude extremes are all at corners); distinct by case hash."
)
ASSUMPTIONS = [
    "pole strictly inside / outside is decided by orientation signs with a 1e-6 margin; faces with a pole closer than that to an edge (but not exactly at a corner) give no verdict",
    "bounds are radians, [[lat_min, lat_max], [lon_min, lon_max]], longitudes compared modulo 2*pi; the full circle is any interval of width >= 2*pi - 1e-9",
    "a corner exactly at a pole has no longitude of its own: the expected longitude interval covers the other corners",
    "faces with a corner inside the documented pole-snapping cap (within 2e-4 rad of a pole, not exactly on it) give no verdict",
]
BUDGET = {
    "quick": dict(shards=4, examples=350),
    "thorough": dict(shards=16, examples=5000, wall_cap_s=1800),
}
TWO_PI = 2 * math.pi
SLACK = 2e-8  # the library's ERROR_TOLERANCE is 1e-8: extremes that close to a corner value are merged with it


# ----------------------------------------------------------------------------- generation
@st.composite
def _bulge_face(draw):
    """Wide face at mid/high latitude: the bottom edge A->B bulges poleward beyond both end
    points; drawn so that the strictly lowest corner can be the *first* node of that edge."""
    lon0 = draw(sampled_from([0.0, -180.0, 170.0, -10.0, 100.0]) | st.floats(-180, 180))
    w = draw(st.floats(40.0, 150.0))
    la = draw(st.floats(15.0, 60.0))
    lb = la + draw(st.floats(-8.0, 8.0))
    south = draw(st.booleans())
    # apex latitude of the A-B circle bounds the top corners from below
    a, b = S.ll2xyz(lon0, la), S.ll2xyz(lon0 + w, lb)
    lo, hi = S.arc_lat_extremes(a, b)
    top = math.degrees(hi)
    k = draw(st.integers(1, 3))
    tops = []
    for i in range(k):
        f = (i + 1) / (k + 1)
        lat = min(88.0, top + draw(st.floats(2.0, 25.0)))
        tops.append((lon0 + w * (1 - f), lat))
    pts = [(lon0, la), (lon0 + w, lb)] + tops
    pts = [(((p[0] + 180.0) % 360.0) - 180.0, p[1]) for p in pts]
    vs = [S.ll2xyz(*p) for p in pts]
    if not S.is_strictly_convex(vs, 1e-6):
        pts = pts[:3]
        vs = vs[:3]
        if not S.is_strictly_convex(vs, 1e-6):
            return None
    if south:
        pts = [(p[0], -p[1]) for p in reversed(pts)]
    start = draw(st.integers(0, len(pts) - 1))
    pts = pts[start:] + pts[:start]
    return {"lonlat": [[float(a), float(b)] for a, b in pts], "how": "bulge-south" if south else "bulge-north", "shape": "bulge"}


@st.composite
def _pole_corner_face(draw):
    north = draw(st.booleans())
    lon0 = draw(sampled_from([0.0, -180.0, 170.0, -30.0]) | st.floats(-180, 180))
    w = draw(st.floats(10.0, 160.0))
    la = draw(st.floats(-20.0, 85.0))
    lb = draw(st.floats(-20.0, 85.0))
    plon = draw(sampled_from([0.0, 180.0, -90.0, lon0 + w / 2, lon0 + w / 2 + 180.0]) | st.floats(-180, 180))
    pts = [(plon, 90.0), (lon0, la), (lon0 + w, lb)]
    if draw(st.booleans()):
        a, b = S.ll2xyz(lon0, la), S.ll2xyz(lon0 + w, lb)
        m = S.arc_midpoint(a, b)
        mlon, mlat = S.xyz2ll(m)
        cand = [pts[0], pts[1], (mlon, mlat - draw(st.floats(1.0, 15.0))), pts[2]]
        if S.is_strictly_convex([S.ll2xyz(*p) for p in cand], 1e-6):
            pts = cand
    pts = [(((p[0] + 180.0) % 360.0) - 180.0, p[1]) for p in pts]
    if not S.is_strictly_convex([S.ll2xyz(*p) for p in pts], 1e-6):
        return None
    if not north:
        pts = [(p[0], -p[1]) for p in reversed(pts)]
    start = draw(st.integers(0, len(pts) - 1))
    pts = pts[start:] + pts[:start]
    return {"lonlat": [[float(a), float(b)] for a, b in pts], "how": "pole-corner-" + ("n" if north else "s"), "shape": "pole-corner"}


@st.composite
def _polar_wide_face(draw):
    """A wide face around a pole: 3-6 corners at drawn latitudes between -25 and 70 degrees (so the face may reach or
    cross the equator), longitudes 60-140 degrees apart.  By construction: if the drawn corners are not strictly convex
    the southern ones are mirrored north, and failing that a regular polygon on the parallel of 20 degrees is used."""
    north = draw(st.booleans())
    n = draw(st.integers(3, 6))
    lon0 = draw(sampled_from([0.0, -180.0, 33.0]) | st.floats(-180, 180))
    gaps = [draw(st.floats(0.6, 1.4)) for _ in range(n)]
    tot = sum(gaps)
    lons, acc = [], 0.0
    for gp in gaps:
        lons.append(lon0 + 360.0 * acc / tot)
        acc += gp
    lats = [draw(st.floats(-25.0, 70.0)) for _ in range(n)]
    for attempt in (lats, [abs(x) + 5.0 for x in lats], [20.0] * n):
        pts = [(((lo + 180.0) % 360.0) - 180.0, la) for lo, la in zip(lons, attempt)]
        vs = [S.ll2xyz(*p) for p in pts]
        if S.is_strictly_convex(vs, 1e-6) and max(S.angle(vs[i], vs[(i + 1) % n]) for i in range(n)) < math.radians(150):
            break
    else:
        pts = [(((lon0 + 360.0 * k / n + 180.0) % 360.0) - 180.0, 20.0) for k in range(n)]
    if not north:
        pts = [(p[0], -p[1]) for p in reversed(pts)]
    start = draw(st.integers(0, len(pts) - 1))
    pts = pts[start:] + pts[:start]
    return {"lonlat": [[float(a), float(b)] for a, b in pts], "how": "polar-wide-" + ("n" if north else "s"), "shape": "polar-wide"}


@st.composite
def _case(draw, tier):
    c = draw(_case0(tier))
    if c["mode"] != "mesh":
        # the corners may be listed in either orientation (the bounds of a face do not depend on it)
        c["clockwise"] = draw(sampled_from([False, False, True]))
    return c


@st.composite
def _case0(draw, tier):
    mode = draw(sampled_from(["face", "face", "face", "bulge", "bulge", "pole-corner", "polar-wide", "mesh"]))
    if mode == "mesh":
        big = tier != "quick"
        k = draw(sampled_from(["hull", "hull", "latlon"]))
        if k == "hull":
            mesh = draw(meshgen.hull_mesh(6, 30 if big else 14, partial=True))
        else:
            mesh = draw(meshgen.latlon_mesh_st())
        return {"mode": "mesh", "mesh": mesh, "radius": draw(_radius()), "coord_dtype": draw(_cdtype())}
    face = None
    if mode == "bulge":
        face = draw(_bulge_face())
    elif mode == "pole-corner":
        face = draw(_pole_corner_face())
    elif mode == "polar-wide":
        face = draw(_polar_wide_face())
    if face is None:
        face = draw(facegen.convex_face(max_class=3, tiny=True))
        mode = "face"
    return {"mode": mode, "face": face, "radius": draw(_radius()), "coord_dtype": draw(_cdtype())}


def _cdtype():
    """Storage type of the source's node_lon / node_lat: float32 sources are judged on the positions their stored
    values denote, with float32-sized tolerances."""
    return sampled_from(["float64", "float64", "float64", "float32"])


def _radius():
    """None: the grid is given by lon/lat alone; a number: it also carries Cartesian node coordinates on a sphere of
    that radius (MPAS / Exodus sources with their own sphere radius)."""
    return sampled_from([None, None, None, 1.0, 2.5, 6371229.0])


def _on_ref_meridian(lonlat):
    """A non-pole corner exactly on the library's reference meridian lon = 0."""
    # within the library's 1e-8 Cartesian tolerance of the half-plane y = 0, x > 0 (with margin)
    return any(
        abs(p[1]) < 90.0 and abs(p[0]) < 90.0 and abs(math.cos(math.radians(p[1])) * math.sin(math.radians(p[0]))) <= 2e-7
        for p in lonlat
    )


def _shift(lonlat, d=0.37):
    return [[(((p[0] + d) + 180.0) % 360.0) - 180.0, p[1]] for p in lonlat]


def _avoid_ref_meridian(case):
    """Exclusion by construction for the known finding C13-refmeridian: rotate the whole
    case about the polar axis (an isometry that preserves every asserted quantity up to the
    longitude offset) until no corner sits on lon = 0.  Marks the case so it is counted."""
    key = "mesh" if case["mode"] == "mesh" else "face"
    obj = dict(case[key])
    field = "nodes" if key == "mesh" else "lonlat"
    n = 0
    while _on_ref_meridian(obj[field]) and n < 5:
        obj[field] = _shift(obj[field])
        n += 1
    if n:
        case = dict(case)
        case[key] = obj
        case["shifted_off_lon0"] = True
    return case


def strategy(tier, excl):
    if "lon0" in excl:
        return _case(tier).map(_avoid_ref_meridian)
    return _case(tier)


# ----------------------------------------------------------------------------- oracle
def _in_lon(lon, lo, hi, slack):
    w = (hi - lo) % TWO_PI
    if hi - lo >= TWO_PI - 1e-9:
        return True
    d = (lon - lo) % TWO_PI
    return d <= w + slack or d >= TWO_PI - slack


def _circ_dist(a, b):
    d = (a - b) % TWO_PI
    return min(d, TWO_PI - d)


def analyse_face(vs):
    """Independent expectation for one convex ccw face given as unit vectors.
    Returns dict or None when the face is outside the asserted domain."""
    n = len(vs)
    out = {"pole_inside": None, "pole_corner": None}
    for v in vs:
        d = math.hypot(v[0], v[1])  # ~ angular distance to the nearer pole
        if 1e-15 < d < 2e-4:
            return None  # inside the library's documented pole-snapping cap (|z| > 1 - 1e-8) but not at the pole
    for name, p in (("N", (0.0, 0.0, 1.0)), ("S", (0.0, 0.0, -1.0))):
        exact_corner = [i for i, v in enumerate(vs) if v[2] * p[2] >= 1 - 1e-15]
        if exact_corner:
            out["pole_corner"] = (name, exact_corner[0])
            continue
        dets = [S.det3(vs[i], vs[(i + 1) % n], p) for i in range(n)]
        if any(d < -1e-6 for d in dets):
            continue  # strictly outside (convex face)
        if all(d > 1e-6 for d in dets):
            out["pole_inside"] = name
        else:
            return None  # pole within the margin of the boundary: no verdict
    lat_lo, lat_hi = math.inf, -math.inf
    for i in range(n):
        lo, hi = S.arc_lat_extremes(vs[i], vs[(i + 1) % n])
        lat_lo, lat_hi = min(lat_lo, lo), max(lat_hi, hi)
    if out["pole_inside"] == "N":
        lat_hi = math.pi / 2
    if out["pole_inside"] == "S":
        lat_lo = -math.pi / 2
    out["lat"] = (lat_lo, lat_hi)
    if out["pole_inside"]:
        out["lon"] = "full"
    else:
        skip = {out["pole_corner"][1]} if out["pole_corner"] else set()
        lons = [math.degrees(math.atan2(v[1], v[0])) for i, v in enumerate(vs) if i not in skip]
        lo, hi = S.lon_cover_interval(lons)
        width = (hi - lo) % 360.0
        if width >= 180.0 - 1e-6:
            return None
        out["lon"] = (math.radians(lo), math.radians(hi))
    return out


def judge_face(vs, box, site, ctx, fails, label="", SLACK=SLACK, TIGHT=1e-7):
    on = [abs(v[1]) <= 2e-7 and v[0] > 1e-9 for v in vs]
    polar = [math.hypot(v[0], v[1]) <= 1e-9 for v in vs]
    if any(on):
        nv = len(vs)
        along = any(on[i] and (on[(i + 1) % nv] or polar[(i + 1) % nv] or polar[i - 1]) for i in range(nv))
        site += "+refmeridian-edge" if along else "+refmeridian-node"
    exp = analyse_face(vs)
    if exp is None:
        ctx.label("no-verdict:pole-near-boundary-or-wide")
        return
    zs = [v[2] for v in vs]
    if exp["pole_inside"] and not (all(z > 0 for z in zs) or all(z < 0 for z in zs)):
        site += "+equator-pole"
    box = np.asarray(box, float)
    if box.shape != (2, 2) or not np.all(np.isfinite(box)):
        fails.append(Failure("encloses", site, "malformed", f"{label} bounds {box.tolist()}"))
        return
    (lat_min, lat_max), (lon_min, lon_max) = box
    n = len(vs)
    # ---- encloses
    ctx.ev("encloses")
    pts = []
    for i in range(n):
        a, b = vs[i], vs[(i + 1) % n]
        pts.append(a)
        for t in range(1, 64):
            pts.append(S.slerp(a, b, t / 64.0))
    worst = None
    for p in pts:
        lat = math.asin(max(-1.0, min(1.0, p[2])))
        if lat < lat_min - SLACK or lat > lat_max + SLACK:
            worst = ("lat", p, lat)
            break
        if abs(p[2]) < 1 - 1e-12 and (abs(p[0]) > 1e-12 or abs(p[1]) > 1e-12):
            lon = math.atan2(p[1], p[0])
            if not _in_lon(lon, lon_min, lon_max, SLACK):
                worst = ("lon", p, lon)
                break
    e_lo, e_hi = exp["lat"]
    if worst is None and (e_lo < lat_min - SLACK or e_hi > lat_max + SLACK):
        worst = ("lat-apex", None, (e_lo, e_hi))
    if worst is not None:
        kind = "boundary-point-outside-" + worst[0].split("-")[0]
        fails.append(Failure("encloses", site, kind, f"{label} {worst[0]} value {worst[2]!r} outside reported box {box.tolist()}; expected lat {exp['lat']}, lon {exp['lon']}"))
    # ---- pole face
    if exp["pole_inside"]:
        ctx.ev("pole_face")
        pole_lat = math.pi / 2 if exp["pole_inside"] == "N" else -math.pi / 2
        got = lat_max if exp["pole_inside"] == "N" else lat_min
        if abs(got - pole_lat) > 1e-9:
            fails.append(Failure("pole_face", site, "pole-latitude-missing", f"{label} pole {exp['pole_inside']} strictly inside but lat bounds {box[0].tolist()}"))
        if lon_max - lon_min < TWO_PI - 1e-9:
            fails.append(Failure("pole_face", site, "not-full-circle", f"{label} pole {exp['pole_inside']} strictly inside but lon bounds {box[1].tolist()}"))
    # ---- tight
    ctx.ev("lat_tight")
    if lat_min < e_lo - TIGHT or lat_max > e_hi + TIGHT:
        fails.append(Failure("lat_tight", site, "not-attained", f"{label} reported lat [{lat_min!r}, {lat_max!r}] but boundary attains only [{e_lo!r}, {e_hi!r}]"))
    if exp["lon"] != "full":
        ctx.ev("lon_shortest")
        lo, hi = exp["lon"]
        full = lon_max - lon_min >= TWO_PI - 1e-9
        if full or _circ_dist(lon_min, lo) > TIGHT or _circ_dist(lon_max, hi) > TIGHT:
            # only a tightness failure when the reported interval does cover the expected one
            fails.append(Failure("lon_shortest", site, "not-shortest", f"{label} reported lon [{lon_min!r}, {lon_max!r}] expected shortest cover [{lo % TWO_PI!r}, {hi % TWO_PI!r}]"))


def _site(case):
    r = ":cartesian-radius" if case.get("radius") not in (None, 1.0) else ""
    if case.get("coord_dtype") == "float32":
        r = ":float32-coordinates"
    if case["mode"] == "mesh":
        return "mesh" + r
    return case["mode"] + r + (":clockwise" if case.get("clockwise") else "")


def classify(case):
    if case["mode"] == "mesh":
        labs = ["mode:mesh", "cartesian-radius:" + str(case.get("radius"))] + meshgen.mesh_labels(case["mesh"])
        if case.get("shifted_off_lon0"):
            labs.append("excluded-by-known:corner-on-lon0->rotated")
        return labs, True
    f = case["face"]
    vs = facegen.face_vectors(f)
    labs = ["mode:" + case["mode"], "cartesian-radius:" + str(case.get("radius")), f"corners:{len(vs)}", "how:" + f.get("how", "?"), "size:" + facegen.size_class(vs)]
    if case.get("clockwise"):
        labs.append("listed-clockwise")
    if case.get("shifted_off_lon0"):
        labs.append("excluded-by-known:corner-on-lon0->rotated")
    exp = analyse_face(vs)
    nontrivial = case["mode"] != "face" or f.get("how") not in ("any",)
    if exp is not None:
        if exp["pole_inside"]:
            labs.append("pole-inside")
            nontrivial = True
            if not (all(v[2] > 0 for v in vs) or all(v[2] < 0 for v in vs)):
                labs.append("pole-inside-and-reaches-the-equator")
        if exp["pole_corner"]:
            labs.append("pole-corner")
        lat_c = [math.asin(max(-1, min(1, v[2]))) for v in vs]
        if exp["lat"][1] > max(lat_c) + 1e-7 or exp["lat"][0] < min(lat_c) - 1e-7:
            labs.append("edge-apex-beyond-corners")
            nontrivial = True
        if exp["lon"] != "full" and (exp["lon"][0] % TWO_PI) > (exp["lon"][1] % TWO_PI):
            labs.append("crosses-prime-meridian")
            nontrivial = True
        lons = [p[0] for p in f["lonlat"]]
        if max(lons) - min(lons) > 180.0:
            labs.append("crosses-antimeridian")
            nontrivial = True
    else:
        labs.append("no-verdict")
    return labs, nontrivial


def _as_stored(lonlat, dtype):
    """The positions a source of that storage type denotes."""
    if dtype == "float32":
        return [[float(np.float32(a)), float(np.float32(b))] for a, b in lonlat]
    return lonlat


def run_case(case, ctx):
    fails = []
    f32 = case.get("coord_dtype") == "float32"
    tol = dict(SLACK=5e-7, TIGHT=1e-6) if f32 else {}
    if f32:
        case = dict(case, radius=None)
        if case["mode"] == "mesh":
            case["mesh"] = dict(case["mesh"], nodes=_as_stored(case["mesh"]["nodes"], "float32"))
        else:
            case["face"] = dict(case["face"], lonlat=_as_stored(case["face"]["lonlat"], "float32"))
    if case["mode"] == "mesh":
        mesh = case["mesh"]
        g = build.grid_from_mesh(mesh, **(build.cartesian_kw(mesh, case["radius"]) if case.get("radius") else {}), **({"coord_dtype": "float32"} if f32 else {}))
        b = np.asarray(g.bounds.values, float)
        ctx.ev("bounds_shape")
        if b.shape != (len(mesh["faces"]), 2, 2):
            return [Failure("encloses", "mesh", "shape", f"bounds shape {b.shape} for {len(mesh['faces'])} faces")]
        xyz = meshgen.mesh_xyz(mesh)
        for fi, f in enumerate(mesh["faces"]):
            vs = [tuple(xyz[i]) for i in f]
            if not S.is_strictly_convex(vs, 1e-9):
                continue
            if max(S.angle(vs[i], vs[(i + 1) % len(vs)]) for i in range(len(vs))) > math.radians(120):
                continue
            judge_face(vs, b[fi], _site(case), ctx, fails, label=f"face {fi} {[mesh['nodes'][i] for i in f]}", **tol)
        return fails
    face = case["face"]
    mesh = {"nodes": face["lonlat"], "faces": [list(range(len(face["lonlat"])))[:: -1 if case.get("clockwise") else 1]]}
    g = build.grid_from_mesh(mesh, **(build.cartesian_kw(mesh, case["radius"]) if case.get("radius") else {}), **({"coord_dtype": "float32"} if f32 else {}))
    b = np.asarray(g.bounds.values, float)
    if b.shape != (1, 2, 2):
        return [Failure("encloses", _site(case), "shape", f"bounds shape {b.shape}")]
    judge_face(facegen.face_vectors(face), b[0], _site(case), ctx, fails, label=f"face {face['lonlat']}", **tol)
    return fails
