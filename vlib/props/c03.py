"""C03 — Incidence tables are exact transposes of one another."""

import itertools
from collections import Counter

import numpy as np
from hypothesis import strategies as st

from ..core import sampled_from  # noqa: E402

from .. import build, meshgen, refmodel
from ..core import Failure
from . import c02

ID = "C03"
RULE = (
    "manifold face-node tables (each edge in <= 2 faces): (a) the manifold tables of C02's enumerated small scope "
    "(exhaustive within it), (b) generated hull / voronoi / lat-lon (pole fans, valence up to 9) / solid / "
    "edge-subdivided meshes incl. partial ones with holes and isolated faces, drawn order of first access of the six "
    "derived tables, (c) MPAS-like sources that supply their own edge numbering and some of the tables (drawn subset "
    "withheld). Non-trivial = mesh has a boundary, an isolated face, or a node of valence >= 5, or supplied tables; "
    "distinct by case hash."
)
EXHAUSTIVE_NOTE = c02.EXHAUSTIVE_NOTE
ASSUMPTIONS = [
    "meshes are manifold (each edge bounded by at most two faces) as the property's quantifier says",
    "standard-form input through Grid.from_topology, or an MPAS-like dataset written by vlib.writers",
]
BUDGET = {
    "quick": dict(shards=4, examples=350),
    "thorough": dict(shards=16, examples=3500, wall_cap_s=1500),
}
writers_EDGE_TABLES = ["verticesOnEdge", "edgesOnCell", "cellsOnEdge", "edgesOnVertex", "dvEdge", "dcEdge", "lonEdge", "latEdge", "xEdge", "yEdge", "zEdge"]
ACCESS = [
    "node_face_connectivity",
    "edge_face_connectivity",
    "face_face_connectivity",
    "hole_edge_indices",
    "n_max_node_faces",
    "n_max_face_faces",
]


def enumerate_cases(tier, shard, nshards, ctx):
    i = 0
    for sizes, faces in c02.enum_tables(tier):
        if not refmodel.is_manifold(faces):
            continue
        i += 1
        if i % nshards != shard:
            continue
        n = 1 + max(x for f in faces for x in f)
        yield {"mesh": {"nodes": c02._placed_nodes(n), "faces": faces, "family": "enumerated"}, "access": [0, 1, 2, 3, 4, 5], "source": "topology"}


@st.composite
def _case(draw, tier):
    big = tier != "quick"
    kind = draw(sampled_from(["any", "any", "any", "subdiv", "polefan", "mpas"] + (["big"] if big else [])))
    source = "topology"
    extra = {}
    if kind == "big":
        mesh = draw(meshgen.hull_mesh(30, 110, partial=True))
    elif kind == "polefan":
        mesh = draw(meshgen.latlon_mesh_st())
    elif kind == "mpas":
        mesh = draw(meshgen.voronoi_mesh(6, 30 if big else 16))
        if len(mesh["faces"]) >= 6 and draw(st.integers(0, 2)) == 0:
            # limited-area MPAS mesh: some cells removed (zeros for the missing neighbours in the source's tables)
            drop = {k % len(mesh["faces"]) for k in draw(st.lists(st.integers(0, 10_000), min_size=1, max_size=4))}
            keep = [f for i, f in enumerate(mesh["faces"]) if i not in drop]
            used = sorted({i for f in keep for i in f})
            re_ = {o: k for k, o in enumerate(used)}
            mesh = {"nodes": [mesh["nodes"][o] for o in used], "faces": [[re_[i] for i in f] for f in keep], "family": "voronoi-regional"}
        source = "mpas"
        # verticesOnEdge defines the source's edge numbering: it is only withheld together with
        # every other edge-indexed table (a source that numbers edges without defining them is
        # not well-formed)
        if draw(st.integers(0, 4)) == 0:
            extra["withhold"] = sorted(writers_EDGE_TABLES)
        else:
            extra["withhold"] = sorted(draw(st.sets(sampled_from(["edgesOnCell", "cellsOnEdge", "cellsOnCell"]))))
        extra["edge_perm_seed"] = draw(st.integers(0, 2**16))
        extra["int_dtype"] = draw(sampled_from(["int32", "int64"]))
        extra["opened_before"] = draw(st.booleans())
    else:
        mesh = draw(meshgen.any_mesh(max_pts=40 if big else 20, orphans=True))
        if kind == "subdiv":
            mesh = meshgen.subdivide_edges(draw, mesh)
    c = {"mesh": mesh, "access": draw(st.permutations([0, 1, 2, 3, 4, 5])), "source": source}
    # route: the judged grid is a face subset of the generated one, taken after a drawn set of tables existed on the parent
    if draw(st.integers(0, 4)) == 0:
        c["subset"] = {"drop": draw(st.lists(st.integers(0, 10_000), min_size=1, max_size=5)), "parent_tables": sorted(draw(st.sets(sampled_from(["edge_face_connectivity", "node_face_connectivity", "face_face_connectivity", "hole_edge_indices", "face_edge_connectivity", "edge_node_connectivity"]), max_size=4)))}
    # history: operations that only read the incidence tables (differences, gradients, aggregations, the dual, a
    # subset), run before the tables are first read or between two reads; the tables judged are those read last
    c["ops"] = draw(st.lists(sampled_from(OPS), max_size=3))
    c["ops_first"] = draw(st.booleans())
    c.update(extra)
    return c


OPS = ["gradient", "difference_face", "difference_node", "topological_mean_face", "topological_mean_edge", "integrate", "get_dual", "isel_face"]


def _run_op(ux, g, op, mesh):
    nf, nn = g.n_face, g.n_node
    fda = ux.UxDataArray(np.arange(nf, dtype=float) * 1.5, dims=["n_face"], uxgrid=g, name="f")
    nda = ux.UxDataArray(np.arange(nn, dtype=float) - 2.0, dims=["n_node"], uxgrid=g, name="n")
    if op == "gradient":
        fda.gradient()
    elif op == "difference_face":
        fda.difference(destination="edge")
    elif op == "difference_node":
        nda.difference(destination="edge")
    elif op == "topological_mean_face":
        nda.topological_mean(destination="face")
    elif op == "topological_mean_edge":
        nda.topological_mean(destination="edge")
    elif op == "integrate":
        fda.integrate()
    elif op == "get_dual":
        if refmodel.is_closed(mesh["faces"]):
            g.get_dual()
    elif op == "isel_face":
        fda.isel(n_face=[0, nf - 1] if nf > 1 else [0])


def strategy(tier, excl):
    return _case(tier)


def classify(case):
    mesh = case["mesh"]
    faces = mesh["faces"]
    labs = [l for l in meshgen.mesh_labels(mesh) if l.startswith("family") or l in ("partial", "closed", "mixed-size", "single-face")]
    val = refmodel.node_valence(faces, len(mesh["nodes"]))
    mv = max(val.values())
    labs.append(f"max-valence:{min(mv, 9)}")
    ff = refmodel.face_face_multiset(faces)
    iso = any(sum(c.values()) == 0 for c in ff.values())
    if iso:
        labs.append("isolated-face")
    if case["source"] != "topology":
        labs.append("source:" + case["source"])
        for w in case.get("withhold", []):
            labs.append("withheld:" + w)
        if case.get("opened_before"):
            labs.append("same-dataset-opened-before")
        labs.append("int:" + case.get("int_dtype", "int32"))
    for op in case.get("ops") or []:
        labs.append("history-op:" + op)
    boundary = not refmodel.is_closed(faces)
    return labs, (boundary or iso or mv >= 5 or case["source"] != "topology")


def _build(case, ctx):
    INT_DTYPE, FILL = build.consts()
    mesh = case["mesh"]
    if case["source"] == "topology":
        return build.grid_from_mesh(mesh), None
    from .. import writers

    ds, info = writers.mpas_dataset(mesh, withhold=case.get("withhold", []), edge_perm_seed=case.get("edge_perm_seed", 0), int_dtype=case.get("int_dtype", "int32"))
    g = build.ux().open_grid(ds)
    if case.get("opened_before"):
        # history: the same in-memory dataset had already been opened once (and its tables read)
        _ = g.node_face_connectivity.values, g.face_node_connectivity.values
        g = build.ux().open_grid(ds)
    return g, info


def run_case(case, ctx):
    INT_DTYPE, FILL = build.consts()
    mesh = case["mesh"]
    faces = mesh["faces"]
    n_node = len(mesh["nodes"])
    g, info = _build(case, ctx)
    site = case["source"]
    sub = case.get("subset")
    if sub and len(faces) >= 4:
        for t in sub["parent_tables"]:
            getattr(g, t)
        drop = sorted({k % len(faces) for k in sub["drop"]})
        keep = [k for k in range(len(faces)) if k not in drop] or [drop[0]]  # never the empty selection
        g = g.isel(n_face=keep)
        info = None
        # the subset as the grid itself reports it (that it holds exactly the chosen faces is C02's / C09's subject)
        sconn = np.asarray(g.face_node_connectivity.values)
        if sconn.ndim == 1:
            sconn = sconn[None, :]
        mesh = {"nodes": [[float(a), float(b)] for a, b in zip(np.asarray(g.node_lon.values, float), np.asarray(g.node_lat.values, float))], "faces": [[int(j) for j in row if j != FILL] for row in sconn]}
        faces, n_node = mesh["faces"], len(mesh["nodes"])
        site += ":face-subset" + ("-of-parent-with-tables" if sub["parent_tables"] else "")
        ctx.label("route:face-subset" + ("-of-parent-with-tables" if sub["parent_tables"] else ""))
    got = {}
    ops = case.get("ops") or []
    if ops and case.get("ops_first"):
        for op in ops:
            _run_op(build.ux(), g, op, mesh)
    for rnd in range(2):
        for k in case["access"]:
            name = ACCESS[k]
            v = getattr(g, name)
            got[name] = np.array(v.values) if hasattr(v, "values") else v
        if rnd == 0 and ops and not case.get("ops_first"):
            for op in ops:
                _run_op(build.ux(), g, op, mesh)
        else:
            break
    if ops:
        site += ":after-" + ("ops" if case.get("ops_first") else "read-ops-read")
    fails = []

    def bad(oracle, kind, detail):
        fails.append(Failure(oracle, site, kind, detail))

    # the grid's own edge numbering (C02 judges its correctness); map edge id -> node pair
    en = np.asarray(g.edge_node_connectivity.values)
    fe = np.asarray(g.face_edge_connectivity.values)
    pairs = [refmodel.edge_key(int(a), int(b)) for a, b in en]
    n_edge = len(pairs)
    if info is not None:
        # supplied numbering must have been kept: compare with what the writer wrote
        ctx.ev("supplied_edge_numbering")
        if "verticesOnEdge" not in case.get("withhold", []):
            if pairs != [refmodel.edge_key(a, b) for a, b in info["edge_nodes"]]:
                bad("supplied_edge_numbering", "edge_node-renumbered", "edge_node_connectivity no longer follows the source's verticesOnEdge")
    ref_ef = refmodel.edge_faces(faces)

    def dtype_fill(name, arr):
        ctx.ev("dtype_fill")
        if arr.dtype != np.dtype(INT_DTYPE):
            bad("dtype_fill", f"{name}:dtype", f"{name} dtype {arr.dtype}")

    # ---- node_face
    nf = np.asarray(got["node_face_connectivity"])
    ctx.ev("node_face")
    dtype_fill("node_face_connectivity", nf)
    ref_nf = refmodel.node_faces(faces, n_node)
    if nf.ndim != 2 or nf.shape[0] != n_node:
        bad("node_face", "shape", f"shape {nf.shape} n_node {n_node}")
    else:
        for n in range(n_node):
            row = [int(x) for x in nf[n]]
            real = [x for x in row if x != FILL]
            if row[: len(real)] != real:
                bad("node_face", "padding-not-at-end", f"node {n}: {row}")
                break
            if len(set(real)) != len(real) or set(real) != ref_nf[n]:
                bad("node_face", "wrong-faces", f"node {n}: {real} expected {sorted(ref_nf[n])}")
                break
        ctx.ev("n_max_node_faces")
        if int(got["n_max_node_faces"]) != nf.shape[1]:
            bad("n_max_node_faces", "wrong", f"{got['n_max_node_faces']} vs table width {nf.shape[1]}")
        if nf.shape[1] < max(len(s) for s in ref_nf.values()):
            bad("n_max_node_faces", "too-narrow", f"width {nf.shape[1]}")

    # ---- edge_face (by the grid's own face_edge numbering)
    ef = np.asarray(got["edge_face_connectivity"])
    ctx.ev("edge_face")
    dtype_fill("edge_face_connectivity", ef)
    if ef.shape != (n_edge, 2):
        bad("edge_face", "shape", f"shape {ef.shape}, n_edge {n_edge}")
    else:
        # faces having e among their face_edge entries
        by_fe = {e: [] for e in range(n_edge)}
        for fi, f in enumerate(faces):
            for j in range(len(f)):
                e = int(fe[fi, j])
                if 0 <= e < n_edge:
                    by_fe[e].append(fi)
        for e in range(n_edge):
            row = [int(x) for x in ef[e]]
            real = [x for x in row if x != FILL]
            want = sorted(by_fe[e])
            want_geo = sorted(ref_ef.get(pairs[e], []))
            if sorted(real) != want or sorted(real) != want_geo:
                bad("edge_face", "wrong-faces", f"edge {e}={pairs[e]}: {row} expected {want_geo} (via face_edge: {want})")
                break
            if len(real) == 1 and row[0] == FILL:
                bad("edge_face", "padding-first", f"boundary edge {e}: {row}")
                break
            if len(real) == 0:
                bad("edge_face", "no-face", f"edge {e}: {row}")
                break

    # ---- face_face
    ff = np.asarray(got["face_face_connectivity"])
    ctx.ev("face_face")
    dtype_fill("face_face_connectivity", ff)
    ref_ff = refmodel.face_face_multiset(faces)
    if ff.ndim != 2 or ff.shape[0] != len(faces):
        bad("face_face", "shape", f"shape {ff.shape}")
    else:
        for fi in range(len(faces)):
            row = [int(x) for x in ff[fi]]
            real = [x for x in row if x != FILL]
            if Counter(real) != ref_ff[fi]:
                bad("face_face", "wrong-neighbours", f"face {fi}: {real} expected {sorted(ref_ff[fi].elements())}")
                break
            if row[: len(real)] != real and case["source"] == "topology":
                bad("face_face", "padding-not-at-end", f"face {fi}: {row}")
                break
        ctx.ev("n_max_face_faces")
        if int(got["n_max_face_faces"]) != ff.shape[1]:
            bad("n_max_face_faces", "wrong", f"{got['n_max_face_faces']} vs {ff.shape[1]}")

    # ---- hole edges
    he = np.asarray(got["hole_edge_indices"])
    ctx.ev("hole_edges")
    ref_holes = refmodel.hole_edges(faces)
    got_holes = [pairs[int(e)] for e in he.ravel() if 0 <= int(e) < n_edge]
    if len(got_holes) != he.size or len(set(got_holes)) != len(got_holes) or set(got_holes) != ref_holes:
        bad("hole_edges", "wrong", f"{sorted(got_holes)[:6]} expected {sorted(ref_holes)[:6]}")
    return fails
