"""C17 — Topological aggregations reduce over exactly each element's nodes."""

import numpy as np
from hypothesis import strategies as st

from ..core import sampled_from  # noqa: E402

from .. import build, datagen, meshgen
from ..core import Failure

ID = "C17"
RULE = (
    "generated meshes (hull with merged 3..8-gons incl. size gaps, voronoi, lat-lon, solids, edge-subdivided; any face "
    "order and node numbering, extra padding columns) x node-centred arrays (0-3 leading dims, float64/float32/int64/"
    "int32/bool, element dimension last) x 10 reductions x {face, edge}; plus unsupported source/destination "
    "combinations which must raise. Oracle: per-element Python loop applying the same numpy reduction to the values on "
    "exactly that element's corner nodes. Non-trivial = mesh mixes face sizes or has padding columns or data has "
    "leading dims or non-float64 dtype; distinct by case hash."
)
ASSUMPTIONS = [
    "the node dimension is the last dimension of the array (as in every use inside the library and its docs)",
    "values are small dyadic rationals so float64 reductions are exact; float32 compared at 1e-5 relative",
    "'edge e' is the grid's own edge_node_connectivity row e (its correctness is C02's subject)",
]
BUDGET = {
    "quick": dict(shards=4, examples=250),
    "thorough": dict(shards=16, examples=2500, wall_cap_s=1500),
}
AGGS = ["mean", "min", "max", "median", "std", "var", "sum", "prod", "all", "any"]
NP = {"mean": np.mean, "min": np.min, "max": np.max, "median": np.median, "std": np.std, "var": np.var,
      "sum": np.sum, "prod": np.prod, "all": np.all, "any": np.any}


@st.composite
def _case(draw, tier):
    big = tier != "quick"
    kind = draw(sampled_from(["any", "any", "gap", "subdiv"]))
    if kind == "gap":
        # size gaps (e.g. triangles + pentagons, no quads): merge aggressively
        mesh = draw(meshgen.hull_mesh(6, 40 if big else 22, partial=True))
    else:
        mesh = draw(meshgen.any_mesh(max_pts=40 if big else 18, orphans=True))
        if kind == "subdiv":
            mesh = meshgen.subdivide_edges(draw, mesh)
    n_node = len(mesh["nodes"])
    mode = draw(sampled_from(["agg", "agg", "agg", "agg", "unsupported"]))
    c = {
        "mesh": mesh,
        "extra_width": draw(sampled_from([0, 0, 1])),
        "mode": mode,
        "aggs": draw(st.lists(sampled_from(AGGS), min_size=1, max_size=4, unique=True)),
        "dest": draw(sampled_from(["face", "edge"])),
        "then_subset": draw(sampled_from([None, None, True])) and draw(st.lists(st.integers(0, 200), min_size=1, max_size=10)),
    }
    if mode == "agg":
        c["data"] = draw(datagen.data_spec(n_node, vmax=3, dtypes=datagen.DTYPES + ["int16", "uint8", "int32"], stores=datagen.STORES, big=True))
    else:
        c["src"] = draw(sampled_from(["face", "edge", "node"]))
        c["bad_dest"] = draw(sampled_from(["node", "face", "edge", None, "cell"]))
        c["data"] = {"lead": [], "dtype": "float64", "scale": 8, "vmax": 3, "values": None, "seed": draw(st.integers(0, 999))}
    return c


def strategy(tier, excl):
    return _case(tier)


def classify(case):
    mesh = case["mesh"]
    sizes = sorted(set(meshgen.face_sizes(mesh)))
    labs = [l for l in meshgen.mesh_labels(mesh) if l.startswith("family") or l in ("mixed-size", "partial")]
    gap = len(sizes) > 1 and any(b - a > 1 for a, b in zip(sizes, sizes[1:]))
    if gap:
        labs.append("size-gap")
    labs.append("mode:" + case["mode"])
    if case["mode"] == "agg":
        labs.append("dtype:" + case["data"]["dtype"] + (":values-at-the-edge-of-the-type" if case["data"].get("big") else ""))
        labs.append("store:" + case["data"].get("store", "C"))
        labs.append(f"rank:{len(case['data']['lead']) + 1}")
        labs.append("dest:" + case["dest"])
        for a in case["aggs"]:
            labs.append("agg:" + a)
    nontrivial = case["mode"] == "agg" and (len(sizes) > 1 or case["extra_width"] > 0 or case["data"]["lead"] or case["data"]["dtype"] != "float64")
    return labs, bool(nontrivial)


def run_case(case, ctx):
    INT_DTYPE, FILL = build.consts()
    ux = build.ux()
    mesh = case["mesh"]
    faces = mesh["faces"]
    nodes = np.asarray(mesh["nodes"], float)
    width = max(len(f) for f in faces) + case["extra_width"]
    g = ux.Grid.from_topology(nodes[:, 0].copy(), nodes[:, 1].copy(), build.padded_faces(mesh, width=width), fill_value=FILL)
    fails = []

    if case["mode"] == "unsupported":
        src, dest = case["src"], case["bad_dest"]
        n = {"face": g.n_face, "edge": g.n_edge, "node": g.n_node}[src]
        supported = src == "node" and dest in ("face", "edge")
        if supported:
            return fails
        da, arr = datagen.uxda(g, case["data"], "n_" + src, n)
        for agg in case["aggs"]:
            ctx.ev("unsupported_raise")
            try:
                r = getattr(da, "topological_" + agg)(destination=dest)
            except (ValueError, NotImplementedError, TypeError, KeyError):
                continue
            fails.append(Failure("unsupported_raise", f"{src}->{dest}", "returned", f"topological_{agg} returned {type(r).__name__} instead of raising"))
        return fails

    spec = case["data"]
    da, arr = datagen.uxda(g, spec, "n_node", g.n_node)
    dest = case["dest"]
    _judge(ux, g, da, arr, case, ctx, fails, "")
    sub = case.get("then_subset")
    if sub and not fails and len(faces) >= 2:
        # history: the same aggregations on a subset taken from the grid that has just been aggregated on
        idx = sorted({i % len(faces) for i in sub})
        sda = da.isel(n_face=idx)
        _judge(ux, sda.uxgrid, sda, np.array(sda.values, copy=True), case, ctx, fails, ":subset-after-aggregation")
    return fails


def _judge(ux, g, da, arr, case, ctx, fails, tag):
    INT_DTYPE, FILL = build.consts()
    spec = case["data"]
    dest = case["dest"]
    if dest == "face":
        conn = np.asarray(g.face_node_connectivity.values).reshape(g.n_face, -1)
        elems = [[int(j) for j in row if j != FILL] for row in conn]
    else:
        elems = [[int(a), int(b)] for a, b in np.asarray(g.edge_node_connectivity.values)]
    rtol = 1e-5 if spec["dtype"] == "float32" else 1e-12
    for agg in case["aggs"]:
        ctx.ev("equals_per_element_reduction")
        res = getattr(da, "topological_" + agg)(destination=dest)
        site = f"{agg}->{dest}{tag}"
        # dims / grid
        ctx.ev("dims_grid")
        want_dims = tuple(datagen.lead_dims(spec)) + ("n_" + dest,)
        if not isinstance(res, ux.UxDataArray) or tuple(res.dims) != want_dims or res.uxgrid is not g:
            fails.append(Failure("dims_grid", site, "wrong", f"type {type(res).__name__} dims {getattr(res, 'dims', None)} expected {want_dims}; same grid: {getattr(res, 'uxgrid', None) is g}"))
            continue
        got = np.asarray(res.values)
        if got.shape != tuple(spec["lead"]) + (len(elems),):
            fails.append(Failure("dims_grid", site, "shape", f"shape {got.shape}"))
            continue
        f = NP[agg]
        exp = np.empty(got.shape, dtype=float)
        for k, el in enumerate(elems):
            exp[..., k] = f(arr[..., el], axis=-1)
        g64 = got.astype(float)
        ok = np.allclose(g64, exp, rtol=rtol, atol=rtol, equal_nan=False)
        if not ok:
            idx = np.argwhere(~np.isclose(g64, exp, rtol=rtol, atol=rtol))[0]
            k = int(idx[-1])
            fails.append(
                Failure(
                    "equals_per_element_reduction",
                    site,
                    "wrong-value",
                    f"element {k} (nodes {elems[k]}, size {len(elems[k])}) index {idx.tolist()}: got {g64[tuple(idx)]!r} expected {exp[tuple(idx)]!r}; dtype {spec['dtype']}",
                )
            )
        ctx.ev("input_unchanged")
        if datagen.modified(da, arr):
            fails.append(Failure("input_unchanged", site, "data-modified", f"topological_{agg} changed the variable it was called on: {np.asarray(da.values).ravel()[:4]} vs {arr.ravel()[:4]}"))
            return fails
    return fails
