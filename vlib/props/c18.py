"""C18 — The dual mesh swaps nodes and faces with correct ring order."""

import numpy as np
from hypothesis import strategies as st

from ..core import sampled_from  # noqa: E402

from .. import build, datagen, meshgen, refmodel, writers
from .. import sphere as S
from ..core import Failure

ID = "C18"
RULE = (
    "closed and partial meshes without duplicate nodes (hull triangulations merged into 3..8-gons, Voronoi meshes, lat-lon "
    "grids with pole fans, pyramids/prisms/antiprisms/cubed spheres; any node/face numbering and starting corner; planted "
    "nodes at the poles and on the antimeridian), node valence 3..8 judged (other nodes only counted), with JIT on and off "
    "(half of the shards run with NUMBA_DISABLE_JIT=1), plus face-/node-centred data of rank 1-3 on closed meshes. Oracle: "
    "the faces around every node walked across shared edges in the faces' own counter-clockwise orientation "
    "(vlib/refmodel.dual_ring) must equal the dual face as a cyclic sequence; dual nodes must sit at the face centroids. "
    "Routes to the judged grid: topology arrays, the same with Cartesian node coordinates at radius 2.5 / 40 / 6371229, and the dual of a face subset taken from a fresh grid / after node_face_connectivity / after the whole grid's dual (the subset judged against the mesh it reports). "
    "In a third of the cases the face centres are then moved through the public setters and the dual is requested again (Grid and UxDataArray): its nodes must sit at the centres the grid reports now. "
    "Non-trivial = mixed face sizes, or a partial mesh, or a pole/antimeridian node, or valence >= 6; distinct by case hash."
)
ASSUMPTIONS = [
    "'surrounded by at least three faces' is read as: at least three faces meet at the node (boundary nodes included)",
    "a face's centre is the normalised mean of its corner unit vectors (what C04 establishes for derived centres), compared at 1e-7 rad",
    "nodes where the incident faces do not form one fan (pinched, non-manifold nodes of partial meshes) and nodes of valence > 8 are not judged",
    "data are only asserted on closed meshes, as the property states",
    "meshes are judged only when every face is strictly convex and lies within 75 degrees of its centroid (all Platonic solids qualify); others are counted as out-of-domain",
]
BUDGET = {
    "quick": dict(shards=4, examples=300),
    "thorough": dict(shards=16, examples=2000, wall_cap_s=1500),
}


def shard_env(tier, k, n):
    return {"NUMBA_DISABLE_JIT": "1"} if k % 2 == 1 else {}


@st.composite
def _case(draw, tier):
    big = tier != "quick"
    fam = draw(sampled_from(["hull", "hull", "hull-partial", "voronoi", "latlon", "solid", "tiny-patch"]))
    if fam == "hull":
        mesh = draw(meshgen.hull_mesh(12, 40 if big else 22, partial=False))
    elif fam == "hull-partial":
        mesh = draw(meshgen.hull_mesh(12, 40 if big else 22, partial=True))
    elif fam == "voronoi":
        mesh = draw(meshgen.voronoi_mesh(10, 24 if big else 16, renumber=True))
    elif fam == "latlon":
        mesh = draw(meshgen.latlon_mesh_st())
    elif fam == "tiny-patch":
        # high-resolution regional patch: cells of 1e-3 .. 0.5 degrees, quads or triangles
        nx, ny = draw(st.integers(3, 5)), draw(st.integers(3, 5))
        d = draw(sampled_from([1e-3, 1e-2, 0.1, 0.5]))
        lon0 = draw(sampled_from([10.0, 179.9, -0.002, 100.0]))
        lat0 = draw(sampled_from([0.0, 40.0, -70.0, 85.0]))
        tri = draw(sampled_from(["quad", "tri", "mixed"]))
        nodes = [[((lon0 + i * d + 180.0) % 360.0) - 180.0, lat0 + j * d * 0.8] for j in range(ny) for i in range(nx)]
        faces = []
        for j in range(ny - 1):
            for i in range(nx - 1):
                a, b, c, e = j * nx + i, j * nx + i + 1, (j + 1) * nx + i + 1, (j + 1) * nx + i
                if tri == "quad" or (tri == "mixed" and (i + j) % 2 == 0):
                    faces.append([a, b, c, e])
                else:
                    faces += [[a, b, c], [a, c, e]]
        mesh = meshgen.finish_mesh(draw, [tuple(p) for p in nodes], faces, True)
        mesh["family"] = "tiny-patch"
    else:
        mesh = draw(meshgen.solid_mesh_st())
    mesh.pop("centers", None)
    centred = draw(sampled_from(["face", "node"]))
    n = len(mesh["faces"]) if centred == "face" else len(mesh["nodes"])
    return {
        "mesh": mesh,
        "centred": centred,
        "data": draw(datagen.data_spec(n, dtypes=["float64", "int64", "float32"], max_lead=2, stores=datagen.STORES)),
        "via_uxda_first": draw(st.booleans()),
        # how the judged grid comes about: from arrays (optionally with Cartesian node coordinates on a sphere of some
        # radius), or as a face subset of that grid, taken on a fresh grid / after node_face_connectivity was derived /
        # after the dual of the whole grid was built (the subset is then the judged grid)
        "route": draw(sampled_from(["topology", "topology", "topology", "radius", "radius", "subset", "subset-after-nfc", "subset-after-dual"])),
        "radius": draw(sampled_from([2.5, 40.0, 6371229.0])),
        "drop": draw(st.lists(st.integers(0, 10_000), min_size=1, max_size=4)),
        # storage type of node_lon / node_lat (single-precision sources are judged on the positions their values denote)
        "coord_dtype": draw(sampled_from(["float64", "float64", "float64", "float32"])),
        # history: 0 = none; k > 0: after the first dual the face centres are moved (towards corner k) through the setters
        "move_centres": draw(sampled_from([0, 0, 0, 1, 2, 5])),
        # where the grid dimension sits among the variable's dimensions (last is the usual layout)
        "grid_dim_at": draw(sampled_from(["last", "last", "first", "middle"])),
    }


CAP_DEG = 75.0


def in_domain(mesh):
    """Every face strictly convex and inside a cap of CAP_DEG around its centroid (admits all
    Platonic solids; excludes near-hemispheric faces whose centroid is ill-defined)."""
    import math

    xyz = meshgen.mesh_xyz(mesh)
    for f in mesh["faces"]:
        vs = [tuple(xyz[i]) for i in f]
        # strictly convex, judged on the sine of the turning angle (scale-invariant: tiny cells qualify)
        nv = len(vs)
        for i in range(nv):
            a, b, c = vs[i], vs[(i + 1) % nv], vs[(i + 2) % nv]
            den = S.norm(S.cross(a, b)) * S.norm(S.cross(b, c))
            if den <= 0 or S.det3(a, b, c) / den <= 1e-3:
                return False
        m = np.mean(xyz[f], axis=0)
        nm = float(np.linalg.norm(m))
        if nm < 1e-6:
            return False
        c = tuple(m / nm)
        if max(S.angle(c, v) for v in vs) > math.radians(CAP_DEG):
            return False
    return True


def strategy(tier, excl):
    return _case(tier)


def classify(case):
    mesh = case["mesh"]
    labs = meshgen.mesh_labels(mesh)
    val = refmodel.node_valence(mesh["faces"], len(mesh["nodes"]))
    vmax = max(val.values())
    labs.append(f"max-valence:{min(vmax, 9)}{'+' if vmax >= 9 else ''}")
    if any(v < 3 for v in val.values()):
        labs.append("has-node-valence<3")
    labs.append("data:" + case["centred"])
    labs.append("in-domain" if in_domain(mesh) else "out-of-domain")
    nontrivial = "in-domain" in labs and (
        "mixed-size" in labs or "partial" in labs or "pole-node" in labs or "node-on-antimeridian" in labs or vmax >= 6
    )
    return labs, nontrivial


def _judge_second(dual, mesh2, ctx, jit, primal_closed):
    """Judge dual.get_dual() against mesh2 (the abstract mesh of the first dual): members and cyclic ring order."""
    INT_DTYPE, FILL = build.consts()
    out = []
    faces2, nodes2 = mesh2["faces"], mesh2["nodes"]
    site = ("closed" if refmodel.is_closed(faces2) else "partial") + ":" + jit + ":dual-of-dual"
    dd = dual.get_dual()
    val = refmodel.node_valence(faces2, len(nodes2))
    expected_nodes = [i for i in range(len(nodes2)) if val[i] >= 3]
    conn = np.asarray(dd.face_node_connectivity.values)
    if conn.ndim == 1:
        conn = conn[None, :]
    ctx.ev("dual_of_dual")
    if dd.n_node != len(faces2) or conn.shape[0] != len(expected_nodes):
        return [Failure("one_face_per_node" if refmodel.is_closed(faces2) else "partial_exactly_valence3plus", site, "counts", f"dual of dual: n_node {dd.n_node} (expected {len(faces2)}), n_face {conn.shape[0]} (expected {len(expected_nodes)})")]
    for r, i in enumerate(expected_nodes):
        real = [int(x) for x in conn[r] if x != FILL]
        if val[i] > 8:
            continue
        ring, ring_closed = refmodel.dual_ring(faces2, i)
        if len(ring) != val[i]:
            continue
        if sorted(real) != sorted(ring):
            return [Failure("ring_members", site, "wrong-set", f"dual of dual: face {r} (node {i}) corners {real}, faces meeting at the node {sorted(ring)}")]
        n = len(ring)
        s0 = ring.index(real[0])
        if real != [ring[(s0 + j) % n] for j in range(n)]:
            return [Failure("ring_order", site, "not-adjacent-or-clockwise", f"dual of dual: face {r} (node {i}) corners {real}; walking counter-clockwise gives {[ring[(s0 + j) % n] for j in range(n)]}")]
    return out


def run_case(case, ctx):
    import os

    INT_DTYPE, FILL = build.consts()
    ux = build.ux()
    mesh = case["mesh"]
    faces, nodes = mesh["faces"], mesh["nodes"]
    n_node, n_face = len(nodes), len(faces)
    closed = refmodel.is_closed(faces)
    fails = []
    jit = "nojit" if os.environ.get("NUMBA_DISABLE_JIT") else "jit"
    site = ("closed" if closed else "partial") + ":" + jit

    def bad(oracle, kind, detail, s=None):
        fails.append(Failure(oracle, s or site, kind, detail))

    f32 = case.get("coord_dtype") == "float32" and mesh.get("family") != "tiny-patch"
    POS_TOL = 1e-7
    if f32:
        mesh = dict(mesh, nodes=[[float(np.float32(a)), float(np.float32(b))] for a, b in mesh["nodes"]])
        nodes = mesh["nodes"]
        POS_TOL = 2e-6
        site += ":float32-coordinates"
    if not in_domain(mesh):
        ctx.label("out-of-domain:face-not-convex-or-too-large")
        return fails
    route = case.get("route", "topology")
    if f32 and route == "radius":
        route = "topology"
    if route == "radius":
        xyz_r = meshgen.mesh_xyz(mesh) * case["radius"]
        g = build.grid_from_mesh(mesh, node_x=np.ascontiguousarray(xyz_r[:, 0]), node_y=np.ascontiguousarray(xyz_r[:, 1]), node_z=np.ascontiguousarray(xyz_r[:, 2]))
        site += ":cartesian-radius"
    else:
        g = build.grid_from_mesh(mesh, coord_dtype="float32" if f32 else "float64")
    if route.startswith("subset") and n_face >= 5:
        if route == "subset-after-nfc":
            g.node_face_connectivity
        elif route == "subset-after-dual":
            g.get_dual()
        drop = sorted({k % n_face for k in case["drop"]})
        keep = [k for k in range(n_face) if k not in drop]
        sg = g.isel(n_face=keep)
        # the subset as the grid itself reports it (that a subset keeps exactly the chosen faces is C02's subject)
        sconn = np.asarray(sg.face_node_connectivity.values)
        if sconn.ndim == 1:
            sconn = sconn[None, :]
        smesh = {
            "nodes": [[float(a), float(b)] for a, b in zip(np.asarray(sg.node_lon.values, float), np.asarray(sg.node_lat.values, float))],
            "faces": [[int(j) for j in row if j != FILL] for row in sconn],
        }
        ctx.label("route:" + route)
        sub_job = (sg, smesh) if len(smesh["faces"]) == len(keep) and in_domain(smesh) else None
    else:
        sub_job = None
    uxda = None
    spec = case["data"]
    if closed:
        n = n_face if case["centred"] == "face" else n_node
        uxda, arr = datagen.uxda(g, spec, "n_" + case["centred"], n, name="v")
        gpos = case.get("grid_dim_at", "last")
        nlead = len(spec["lead"])
        if gpos != "last" and nlead >= 1:
            order = list(range(nlead))
            order.insert(0 if gpos == "first" or nlead < 2 else 1, nlead)
            uxda = uxda.transpose(*[uxda.dims[i] for i in order])
            arr = np.transpose(arr, order)
            ctx.label("grid-dim-not-last")
        else:
            order = None
    dual_from_da = None
    if uxda is not None and case["via_uxda_first"]:
        dual_from_da = uxda.get_dual()
    dual = g.get_dual()
    if uxda is not None and dual_from_da is None:
        dual_from_da = uxda.get_dual()

    def judge_grid(d, tag, mesh=mesh, site=site, centres=None):
        faces, nodes = mesh["faces"], mesh["nodes"]
        n_node, n_face = len(nodes), len(faces)
        closed = refmodel.is_closed(faces)
        val = refmodel.node_valence(faces, n_node)
        expected_nodes = [i for i in range(n_node) if val[i] >= 3]

        def bad(oracle, kind, detail, s=None):
            fails.append(Failure(oracle, s or site, kind, detail))

        conn = np.asarray(d.face_node_connectivity.values)
        if conn.ndim == 1:
            conn = conn[None, :]
        ctx.ev("counts")
        if d.n_node != n_face:
            bad("dual_nodes_are_face_centres", "n_node", f"{tag}: dual n_node {d.n_node} != primal n_face {n_face}")
            return
        if conn.shape[0] != len(expected_nodes):
            bad(
                "one_face_per_node" if closed else "partial_exactly_valence3plus",
                "n_face",
                f"{tag}: dual n_face {conn.shape[0]} expected {len(expected_nodes)} (nodes with >= 3 faces; primal n_node {n_node})",
            )
            return
        if conn.dtype != INT_DTYPE:
            bad("padding_at_end", "dtype", f"{tag}: {conn.dtype}")
        # ---- dual nodes at the face centres
        ctx.ev("dual_nodes_are_face_centres")
        cxyz = writers.face_centres_xyz(mesh) if centres is None else centres
        dxyz = S.ll2xyz_np(np.asarray(d.node_lon.values, float), np.asarray(d.node_lat.values, float))
        for k in range(n_face):
            if not S.same_position(tuple(cxyz[k]), tuple(dxyz[k]), POS_TOL):
                bad("dual_nodes_are_face_centres", "moved", f"{tag}: dual node {k} at {S.xyz2ll(tuple(dxyz[k]))} but face {k} centre is {S.xyz2ll(tuple(cxyz[k]))}")
                break
        # ---- rings
        for r, i in enumerate(expected_nodes):
            row = [int(x) for x in conn[r]]
            real = [x for x in row if x != FILL]
            v = val[i]
            if v > 8:
                ctx.label("node-not-judged:valence>8")
                continue
            ring, ring_closed = refmodel.dual_ring(faces, i)
            if len(ring) != v:
                ctx.label("node-not-judged:pinched")
                continue
            vs = f"valence{v}"
            ctx.ev("padding_at_end")
            k = len(real)
            if row[:k] != real or any(x != FILL for x in row[k:]):
                bad("padding_at_end", "fill-inside-row", f"{tag}: dual face {r} (node {i}) row {row}", site + ":" + vs)
                continue
            ctx.ev("ring_members")
            if sorted(real) != sorted(ring):
                bad("ring_members", "wrong-set", f"{tag}: dual face {r} (node {i} at {nodes[i]}) corners {real} but faces meeting at the node are {sorted(ring)}", site + ":" + vs)
                continue
            ctx.ev("ring_order")
            n = len(ring)
            s0 = ring.index(real[0])
            rot = [ring[(s0 + j) % n] for j in range(n)]
            if real != rot:
                rev = [ring[(s0 - j) % n] for j in range(n)]
                kind = "clockwise" if real == rev else "not-adjacent"
                bad(
                    "ccw" if kind == "clockwise" else "ring_order",
                    kind,
                    f"{tag}: dual face {r} (node {i} at {nodes[i]}, {'interior' if ring_closed else 'boundary'}) corners {real}; walking the faces counter-clockwise across shared edges gives {rot}",
                    site + ":" + vs,
                )
                continue
            # geometric cross-check of the orientation for interior nodes
            if ring_closed:
                ctx.ev("ccw")
                nv = S.ll2xyz(nodes[i][0], nodes[i][1])
                tot = 0.0
                for j in range(n):
                    a, b = tuple(dxyz[real[j]]), tuple(dxyz[real[(j + 1) % n]])
                    # counter-clockwise angle in [0, 2*pi) at nv from the direction of a to that of b:
                    # one turn in total iff the corners are sorted counter-clockwise
                    ta = S.normalize(S.cross(S.cross(nv, a), nv))
                    tb = S.normalize(S.cross(S.cross(nv, b), nv))
                    tot += float(np.arctan2(S.dot(nv, S.cross(ta, tb)), S.dot(ta, tb))) % (2 * np.pi)
                if abs(tot - 2 * np.pi) > 1e-6:
                    bad("ccw", "winding", f"{tag}: dual face {r} (node {i}) winds {tot!r} rad about the node, expected +2*pi", site + ":" + vs)

    if sub_job is not None:
        judge_grid(sub_job[0].get_dual(), "subset.get_dual", sub_job[1], "partial:" + jit + ":" + route)
        if fails:
            return fails
    judge_grid(dual, "Grid.get_dual")
    if fails:
        return fails
    # ---- the dual is a grid like any other: its own dual must obey the property as well
    dconn = np.asarray(dual.face_node_connectivity.values)
    if dconn.ndim == 1:
        dconn = dconn[None, :]
    mesh2 = {
        "nodes": [[float(a), float(b)] for a, b in zip(np.asarray(dual.node_lon.values, float), np.asarray(dual.node_lat.values, float))],
        "faces": [[int(j) for j in row if j != FILL] for row in dconn],
    }
    if dual.n_face >= 1 and in_domain(mesh2) and not any(abs(abs(p[1]) - 90.0) < 0.5 and abs(p[1]) != 90.0 for p in mesh2["nodes"]):
        ctx.label("dual-of-dual-judged")
        sub = {"mesh": mesh2, "centred": "face", "data": {"lead": [], "dtype": "float64", "values": None, "seed": 1, "scale": 8, "vmax": 8}, "via_uxda_first": False}
        for f in _judge_second(dual, mesh2, ctx, jit, closed):
            fails.append(f)
        if fails:
            return fails
    cur_centres = None
    if case.get("move_centres") and not f32 and route in ("topology", "radius"):
        # history: after the dual has been built, the face centres are replaced through the public setters (each moved
        # a fifth of the way towards one of its corners, so it stays strictly inside its convex face and every ring keeps
        # its order); a dual requested afterwards must have its nodes at the centres the grid now reports
        import xarray as xr

        mx = meshgen.mesh_xyz(mesh)
        c0 = writers.face_centres_xyz(mesh)
        moved = []
        for k, f in enumerate(faces):
            v = 0.8 * np.asarray(c0[k], float) + 0.2 * mx[f[case["move_centres"] % len(f)]]
            moved.append(v / np.linalg.norm(v))
        moved = np.array(moved)
        ll = [S.xyz2ll(tuple(v)) for v in moved]
        g.face_lon = xr.DataArray(np.array([p[0] for p in ll]), dims=["n_face"])
        g.face_lat = xr.DataArray(np.array([p[1] for p in ll]), dims=["n_face"])
        g.face_x = xr.DataArray(moved[:, 0].copy(), dims=["n_face"])
        g.face_y = xr.DataArray(moved[:, 1].copy(), dims=["n_face"])
        g.face_z = xr.DataArray(moved[:, 2].copy(), dims=["n_face"])
        ctx.label("history:dual-after-centres-moved")
        judge_grid(g.get_dual(), "Grid.get_dual after the face centres were moved", centres=moved, site=site + ":after-moving-centres")
        if fails:
            return fails
        if uxda is not None:
            judge_grid(uxda.get_dual().uxgrid, "UxDataArray.get_dual after the face centres were moved", centres=moved, site=site + ":after-moving-centres")
            if fails:
                return fails
            dual_from_da, dual, cur_centres = uxda.get_dual(), g.get_dual(), moved
    if uxda is not None:
        res = dual_from_da
        ctx.ev("data_swapped_unpermuted")
        want_dim = "n_node" if case["centred"] == "face" else "n_face"
        want_dims = tuple(datagen.lead_dims(spec)) + (want_dim,)
        if closed and order is not None:
            want_dims = tuple(want_dims[i] for i in order)
        if not isinstance(res, ux.UxDataArray):
            bad("data_swapped_unpermuted", "type", f"{type(res).__name__}", site + ":data-" + case["centred"])
            return fails
        if tuple(res.dims) != want_dims:
            bad("data_swapped_unpermuted", "dims", f"{res.dims} expected {want_dims}", site + ":data-" + case["centred"])
            return fails
        if datagen.modified(uxda, arr):
            bad("data_swapped_unpermuted", "input-modified", "get_dual() changed the variable it was called on", site + ":data-" + case["centred"])
        if res.shape != arr.shape or not np.array_equal(np.asarray(res.values), arr):
            bad("data_swapped_unpermuted", "values", f"values changed: {np.asarray(res.values).ravel()[:6]} vs {arr.ravel()[:6]}", site + ":data-" + case["centred"])
        if res.name != "v":
            bad("data_swapped_unpermuted", "name", f"{res.name!r}", site + ":data-" + case["centred"])
        dg = res.uxgrid
        if dg is None or dg.n_node != n_face or dg.n_face != n_node:
            bad("data_swapped_unpermuted", "grid", f"result grid n_node {getattr(dg, 'n_node', None)} n_face {getattr(dg, 'n_face', None)}; primal n_face {n_face} n_node {n_node}", site + ":data-" + case["centred"])
        else:
            before = len(fails)
            judge_grid(dg, "UxDataArray.get_dual", centres=cur_centres)
            if len(fails) == before:
                a = np.asarray(dg.face_node_connectivity.values)
                b = np.asarray(dual.face_node_connectivity.values)
                ctx.ev("same_dual_both_ways")
                if a.shape != b.shape or not np.array_equal(a, b):
                    bad("data_swapped_unpermuted", "grid-differs", "UxDataArray.get_dual().uxgrid differs from Grid.get_dual()", site + ":data-" + case["centred"])
    return fails
