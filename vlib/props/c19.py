"""C19 — A grid shares no mutable state with its inputs, copies or exports."""

import copy

import numpy as np
from hypothesis import strategies as st

from ..core import sampled_from  # noqa: E402

from .. import build, meshgen, writers
from ..core import Failure, need

ID = "C19"
RULE = (
    "constructor (from_topology / open_grid(dict) with ndarray or list inputs, int32/int64, start_index 0/1, fill none/-1/"
    "int64-min, 0..360 or +-180 longitudes; from_face_vertices with ndarray / list, lon-lat or Cartesian; from_dataset / "
    "open_grid on my own UGRID, MPAS, ESMF, SCRIP, Exodus and ICON datasets carrying attributes) followed by a history of 1-6 "
    "steps over {original, copy()}: public mutators on either side (construct_face_centers with both methods, "
    "normalize_cartesian_coordinates, chunk, property setters, lazy derivation of 8 quantities) and caller edits of exported "
    "objects (in-place value edits, attribute edits and variable deletion on to_xarray() results; column insertion / row "
    "deletion on GeoDataFrames from Grid.to_geodataframe and UxDataArray.to_geodataframe). Oracles: deep snapshot of every "
    "input before / after; the untouched side's exported variables and values unchanged after each mutation of the other "
    "side; the grid's reports unchanged after edits of exported objects. Topology constructors also receive caller-owned node_x/y/z (unit or radius 6371229); UxDataArray.to_geodataframe is exercised cached and with cache=False on a grid that already holds a frame. Non-trivial = a copy is mutated, or an export is "
    "edited, or the input needed conversion (start_index 1, 0..360 longitudes, non-standard fill); distinct by case hash."
)
ASSUMPTIONS = [
    "observations of a grid are taken through to_xarray('ugrid') (a public read): names, values and dtypes of the exported variables",
    "on the mutated side nothing is asserted; on the other side variables may neither change nor appear / disappear",
    "the GeoDataFrame handed out again later may be the same cached object as long as its content equals what a fresh grid returns",
]
BUDGET = {
    "quick": dict(shards=4, examples=120),
    "thorough": dict(shards=16, examples=1500, wall_cap_s=1800),
}
CONSTRUCTORS = ["topology", "topology", "topology-dict", "vertices", "ds-ugrid", "ds-mpas", "ds-esmf", "ds-scrip", "ds-exodus", "ds-icon"]
LAZY = ["edge_node_connectivity", "face_edge_connectivity", "node_face_connectivity", "face_lon", "node_x", "face_x", "face_areas", "edge_lon"]
MUTATORS = ["centers-avg", "centers-welzl", "normalize", "chunk", "set-node_lon", "set-face_areas", "lazy", "inplace-coords", "inplace-conn"]
EDITS = ["xr-inplace", "xr-attrs", "xr-delete", "gdf-column", "gdf-drop", "uxda-gdf", "uxda-gdf-nocache"]


@st.composite
def _case(draw, tier):
    big = tier != "quick"
    ctor = draw(sampled_from(CONSTRUCTORS))
    if ctor == "ds-mpas":
        mesh = draw(meshgen.voronoi_mesh(6, 14 if big else 10, renumber=False))
    elif ctor == "ds-icon":
        mesh = draw(meshgen.hull_mesh(4, 14 if big else 10, partial=False, merge=False))
    else:
        mesh = draw(meshgen.hull_mesh(4, 16 if big else 10, partial=True))
    mesh.pop("centers", None)
    d = {
        "container": draw(sampled_from(["ndarray", "ndarray", "list"])),
        "dtype": draw(sampled_from(["int64", "int32"])),
        "start_index": draw(sampled_from([0, 1])),
        "fill": draw(sampled_from([None, -1, "int64min"])),
        "lon360": draw(st.booleans()),
        "latlon": draw(st.booleans()),
        "radius": draw(sampled_from([1.0, 6371229.0])),
        "names": draw(sampled_from([0, 0, 1, 2])),  # UGRID datasets: 0 = the library's own variable and dimension names
        "with_xyz": draw(sampled_from([False, False, True])),  # topology constructors: caller also supplies node_x/y/z (scaled by radius)
    }
    steps = []
    for _ in range(draw(st.integers(1, 6))):
        kind = draw(sampled_from(["mutate", "mutate", "edit"]))
        if kind == "mutate":
            steps.append(["mutate", draw(sampled_from(["orig", "copy"])), draw(sampled_from(MUTATORS)), draw(sampled_from(LAZY))])
        else:
            steps.append(["edit", draw(sampled_from(["orig", "copy"])), draw(sampled_from(EDITS)), draw(sampled_from(["ugrid", "ugrid", "exodus", "scrip"]))])
    return {"ctor": ctor, "mesh": mesh, "dialect": d, "steps": steps, "derive_before_copy": draw(sampled_from(LAZY + [None, None]))}


def _drop_gdf_edits(case):
    """Exclusion by construction for the known finding C19-gdf-cache-identity: caller edits of the
    cached GeoDataFrame are replaced by the UxDataArray path, which must stay clean."""
    steps = []
    n = 0
    for s in case["steps"]:
        if s[0] == "edit" and s[2] in ("gdf-column", "gdf-drop"):
            s = [s[0], s[1], "uxda-gdf", s[3]]
            n += 1
        steps.append(s)
    if n:
        case = dict(case, steps=steps, excluded_gdf_edits=n)
    return case


def strategy(tier, excl):
    if "gdf-edit" in excl:
        return _case(tier).map(_drop_gdf_edits)
    return _case(tier)


def classify(case):
    d = case["dialect"]
    labs = ["ctor:" + case["ctor"], "container:" + d["container"]]
    if case["ctor"] == "ds-ugrid":
        labs.append("ugrid-names:" + ["library's-own", "Mesh2", "short"][d.get("names", 1) % 3])
    for s in case["steps"]:
        labs.append(f"{s[0]}:{s[2]}")
        labs.append(f"{s[0]}-on:{s[1]}")
    conv = case["ctor"].startswith("topology") and (d["start_index"] == 1 or d["lon360"] or d["fill"] is not None)
    if conv:
        labs.append("input-needs-conversion")
    if case.get("excluded_gdf_edits"):
        labs.append("excluded-by-known:gdf-edit->uxda-gdf")
    return sorted(set(labs)), True


# ----------------------------------------------------------------------------- snapshots
def snap(obj):
    """Deep, comparable snapshot of arrays / lists / datasets (values, dtypes, attrs)."""
    import xarray as xr

    if isinstance(obj, xr.Dataset):
        out = {"__attrs__": snap(dict(obj.attrs)), "__dims__": dict(obj.sizes)}
        for name in obj.variables:
            v = obj[name]
            try:
                vals = np.array(v.values, copy=True)
            except Exception:  # noqa
                vals = None
            out[str(name)] = (v.dims, None if vals is None else (str(vals.dtype), vals.tobytes() if vals.dtype != object else repr(vals.tolist())), snap(dict(v.attrs)))
        return out
    if isinstance(obj, np.ndarray):
        return ("nd", str(obj.dtype), obj.shape, obj.tobytes() if obj.dtype != object else repr(obj.tolist()))
    if isinstance(obj, dict):
        return {str(k): snap(v) for k, v in obj.items()}
    if isinstance(obj, (list, tuple)):
        return [snap(v) for v in obj]
    if isinstance(obj, (np.generic,)):
        return ("np", str(obj.dtype), obj.item() if obj.dtype.kind != "f" else repr(float(obj)))
    if isinstance(obj, float):
        return repr(obj)
    if isinstance(obj, (int, str, bool, type(None))):
        return obj
    return repr(obj)[:200]


def diff(a, b, path=""):
    if type(a) is not type(b):
        return f"{path}: type {type(a).__name__} -> {type(b).__name__}"
    if isinstance(a, dict):
        for k in a:
            if k not in b:
                return f"{path}/{k}: removed"
        for k in b:
            if k not in a:
                return f"{path}/{k}: added"
        for k in a:
            r = diff(a[k], b[k], f"{path}/{k}")
            if r:
                return r
        return None
    if isinstance(a, (list, tuple)):
        if len(a) != len(b):
            return f"{path}: length {len(a)} -> {len(b)}"
        for i, (x, y) in enumerate(zip(a, b)):
            r = diff(x, y, f"{path}[{i}]")
            if r:
                return r
        return None
    return None if a == b else f"{path}: changed"


def observe(g):
    """Public read of everything the grid currently stores."""
    ds = g.to_xarray("ugrid")
    out = {}
    for name in ds.variables:
        if name == "grid_topology":
            continue
        v = ds[name]
        vals = np.array(v.values, copy=True)
        out[str(name)] = (tuple(v.dims), str(vals.dtype), vals.tobytes() if vals.dtype != object else repr(vals.tolist()))
    return out


def _construct(ux, case, ctx):
    INT_DTYPE, FILL = build.consts()
    mesh, d, ctor = case["mesh"], case["dialect"], case["ctor"]
    nodes = np.asarray(mesh["nodes"], float)
    inputs = {}
    if ctor in ("topology", "topology-dict"):
        fill = FILL if d["fill"] == "int64min" else d["fill"]
        width = max(len(f) for f in mesh["faces"])
        if any(len(f) != width for f in mesh["faces"]) and fill is None:
            fill = -1
        dt = "int64" if fill == FILL else d["dtype"]
        conn = writers.padded(mesh["faces"], width, 0 if fill is None else fill, dt, d["start_index"])
        lon = writers.wrap_lon(nodes[:, 0], d["lon360"]).copy()
        lat = nodes[:, 1].copy()
        if d["container"] == "list":
            conn, lon, lat = conn.tolist(), lon.tolist(), lat.tolist()
        inputs = {"node_lon": lon, "node_lat": lat, "face_node_connectivity": conn}
        if d.get("with_xyz"):
            xyz = meshgen.mesh_xyz(mesh) * d["radius"]
            for ax, nm in enumerate(("node_x", "node_y", "node_z")):
                inputs[nm] = np.ascontiguousarray(xyz[:, ax]) if d["container"] != "list" else xyz[:, ax].tolist()
        kw = dict(inputs, fill_value=fill, start_index=d["start_index"])
        if d["container"] == "list":
            kw["face_node_connectivity"] = np.asarray(conn, dtype=dt)  # connectivity must be an array; coordinates may be lists
            inputs["face_node_connectivity"] = kw["face_node_connectivity"]
        before = snap(inputs)
        g = ux.open_grid(kw) if ctor == "topology-dict" else ux.Grid.from_topology(**kw)
        return g, inputs, before
    if ctor == "vertices":
        xyz = meshgen.mesh_xyz(mesh)
        width = max(len(f) for f in mesh["faces"])
        k = 2 if d["latlon"] else 3
        arr = np.full((len(mesh["faces"]), width, k), float(FILL))
        for i, f in enumerate(mesh["faces"]):
            arr[i, : len(f)] = [mesh["nodes"][j] if d["latlon"] else xyz[j] for j in f]
        obj = arr if d["container"] == "ndarray" else arr.tolist()
        inputs = {"face_vertices": obj}
        before = snap(inputs)
        return ux.Grid.from_face_vertices(obj, latlon=d["latlon"]), inputs, before
    if ctor == "ds-ugrid":
        ds, _ = writers.ugrid_dataset(mesh, {"start_index": d["start_index"], "fill": -1 if d["fill"] is None else (FILL if d["fill"] == "int64min" else d["fill"]), "dtype": "int64" if d["fill"] == "int64min" else d["dtype"], "names": d.get("names", 1), "lon360": d["lon360"], "face_coords": d.get("names", 1) != 0 or d["with_xyz"], "extras": ["edge_node_connectivity"] if (d.get("names", 1) != 0 or d["latlon"]) else []})
    elif ctor == "ds-mpas":
        ds, _ = writers.mpas_dataset(mesh, radius=d["radius"], int_dtype=d["dtype"])
    elif ctor == "ds-esmf":
        ds, _ = writers.esmf_dataset(mesh, {"start_index": d["start_index"], "lon360": d["lon360"], "dtype": d["dtype"]})
    elif ctor == "ds-scrip":
        ds, _ = writers.scrip_dataset(mesh, {"lon360": d["lon360"]})
    elif ctor == "ds-exodus":
        ds, _ = writers.exodus_dataset(mesh, {"dtype": d["dtype"], "blocks": "by-size"})
    else:
        ds, _ = writers.icon_dataset(mesh, {"dtype": d["dtype"]})
    ds.attrs["title"] = "source"
    ds.attrs["history"] = ["a", "b"]
    inputs = {"dataset": ds}
    before = snap(inputs)
    g = ux.open_grid(ds) if d["container"] == "ndarray" else ux.Grid.from_dataset(ds)
    return g, inputs, before


def run_case(case, ctx):
    import xarray as xr

    ux = build.ux()
    fails = []
    g, inputs, before = _construct(ux, case, ctx)
    site_c = "ctor:" + case["ctor"]

    def inputs_check(when):
        ctx.ev("inputs_unchanged")
        r = diff(before, snap(inputs))
        if r:
            fails.append(Failure("inputs_unchanged", site_c, "input-modified", f"{when}: {r}"))
            return False
        return True

    if not inputs_check("after construction"):
        return fails
    # a few reads that touch the stored input variables
    for q in ("node_lon", "face_node_connectivity", "n_nodes_per_face", "node_x", "face_lon", "edge_node_connectivity"):
        getattr(g, q)
    if not inputs_check("after deriving node_x / face_lon / edges"):
        return fails
    if case["derive_before_copy"]:
        getattr(g, case["derive_before_copy"])
    c = g.copy()
    sides = {"orig": g, "copy": c}
    ref_obs = {k: observe(v) for k, v in sides.items()}
    if not inputs_check("after copy() and to_xarray()"):
        return fails

    setter_seen = False
    own_edit_of_orig = False
    for si, st_ in enumerate(case["steps"]):
        kind, side, what, arg = st_
        other = "copy" if side == "orig" else "orig"
        tgt = sides[side]
        site = f"{kind}:{what}:on-{side}"
        if kind == "mutate":
            try:
                if what == "centers-avg":
                    tgt.construct_face_centers("cartesian average")
                elif what == "centers-welzl":
                    tgt.construct_face_centers("welzl")
                elif what == "normalize":
                    tgt.normalize_cartesian_coordinates()
                elif what == "chunk":
                    tgt.chunk(n_node=2, n_face=2)
                elif what == "set-node_lon":
                    tgt.node_lon = xr.DataArray(np.asarray(tgt.node_lon.values) * 0.5, dims=tgt.node_lon.dims)
                elif what == "inplace-coords":
                    # the arrays a grid hands out are its own: editing them in place must stay on that side
                    tgt.node_lat.values[...] = tgt.node_lat.values * 0.5
                elif what == "inplace-conn":
                    tab = tgt.face_node_connectivity.values
                    k0 = int(np.sum(tab[0] != build.consts()[1]))
                    tab[0, :k0] = np.roll(tab[0, :k0].copy(), 1)  # the same face from another starting corner: every derived table stays valid
                elif what == "set-face_areas":
                    tgt.face_areas = xr.DataArray(np.full(tgt.n_face, 7.0), dims=["n_face"])
                else:
                    getattr(tgt, arg)
            except (ImportError, ModuleNotFoundError):
                continue
            if what.startswith("inplace") and side == "orig":
                # the harness itself wrote into arrays the original may legitimately still share with its inputs:
                # from here on a change of the inputs is no longer the library's doing
                own_edit_of_orig = True
            if what == "set-node_lon" and not setter_seen:
                setter_seen = True  # only the first setter of a history: later ones meet frames cached before (staleness of a grid's own cache is not C19's subject)
                # geometry exports must follow each side's own coordinates (mutated side first, so that a cache
                # shared between the two sides would hand its frame to the other one)
                ctx.ev("copy_independent_geometry")
                try:
                    FILL = build.consts()[1]
                    sides[side].to_geodataframe(periodic_elements="ignore", engine="geopandas")  # mutated side first
                    gg = sides[other]
                    gdf = need(gg.to_geodataframe(periodic_elements="ignore", engine="geopandas"), "columns", "Grid.to_geodataframe")
                    lon = np.asarray(gg.node_lon.values, float)
                    conn = np.asarray(gg.face_node_connectivity.values).reshape(gg.n_face, -1)
                    got_rows = [sorted({round(float(x), 3) for x, _ in (gm.to_shapely() if hasattr(gm, "to_shapely") else gm).exterior.coords}) for gm in gdf["geometry"]]
                    want_rows = [sorted({round(float(np.float32(lon[j])), 3) for j in row if j != FILL}) for row in conn]
                    if got_rows != want_rows:
                        k = next((i for i, (a, b) in enumerate(zip(got_rows, want_rows)) if a != b), 0)
                        fails.append(Failure("copy_independent", site, "geometry-of-other-side", f"step {si}: after the node_lon setter on the {side}, to_geodataframe() of the untouched {other} has {len(got_rows)} polygons; polygon {k} has longitudes {got_rows[k] if k < len(got_rows) else None}, its own node_lon gives {want_rows[k] if k < len(want_rows) else None}"))
                        return fails
                except (ImportError, ModuleNotFoundError):
                    pass
            ctx.ev("copy_independent")
            now = observe(sides[other])
            r = diff(ref_obs[other], now)
            if r:
                fails.append(Failure("copy_independent", site, "other-side-changed", f"step {si}: after {what} on the {side}, the {other} reports a difference: {r}"))
                return fails
            ref_obs[side] = observe(tgt)
        else:
            ctx.ev("exports_detached")
            if what.startswith("xr"):
                fmt = arg
                ds = tgt.to_xarray(fmt)
                base = observe(tgt)  # after the export: a read may add derived variables (that is C08's subject)
                ref_obs[side] = base
                site = f"edit:{what}:{fmt}"
                names = [n for n in ds.variables if ds[n].dtype.kind in "fi" and ds[n].ndim >= 1 and ds[n].size > 0]
                if not names:
                    continue
                if what == "xr-inplace":
                    for n in names:
                        try:
                            ds[n].values[...] = 0
                        except (ValueError, TypeError):
                            pass
                elif what == "xr-attrs":
                    ds.attrs["edited"] = 1
                    for n in names:
                        ds[n].attrs["edited"] = 1
                        ds[n].attrs.pop("_FillValue", None)
                else:
                    for n in names[:3]:
                        del ds[n]
                now = observe(tgt)
                r = diff(base, now)
                if r:
                    fails.append(Failure("exports_detached", site, "grid-changed", f"step {si}: after editing the dataset returned by to_xarray('{fmt}') ({what}), the grid reports a difference: {r}"))
                    return fails
                r = diff(ref_obs[other], observe(sides[other]))
                if r:
                    fails.append(Failure("exports_detached", site, "other-grid-changed", f"step {si}: editing an export of the {side} changed the {other}: {r}"))
                    return fails
                if what == "xr-attrs":
                    fn = tgt.face_node_connectivity
                    if "edited" in fn.attrs or "_FillValue" not in fn.attrs:
                        fails.append(Failure("exports_detached", site, "grid-attrs-changed", f"step {si}: attribute edits on the export reached the grid's face_node_connectivity: {dict(fn.attrs)}"))
                        return fails
            else:
                site = f"edit:{what}"
                fresh_cols = None
                try:
                    if what.startswith("uxda-gdf"):
                        da = ux.UxDataArray(np.arange(tgt.n_face, dtype=float), dims=["n_face"], uxgrid=tgt, name="v")
                        if what == "uxda-gdf-nocache":
                            if arg != "scrip":
                                tgt.to_geodataframe()  # the grid already holds a frame of its own
                            gdf = da.to_geodataframe(cache=False)
                        else:
                            gdf = da.to_geodataframe()
                    else:
                        gdf = tgt.to_geodataframe()
                    if gdf is None or not hasattr(gdf, "columns"):
                        fails.append(Failure("exports_detached", f"edit:{what}", "no-frame", f"to_geodataframe returned {type(gdf).__name__}"))
                        break
                    n_expected = len(gdf)
                    if not what.startswith("uxda-gdf"):
                        if what == "gdf-column":
                            gdf["mine"] = 1.0
                        else:
                            gdf.drop(index=gdf.index[:1], inplace=True)
                except (ImportError, ModuleNotFoundError):
                    continue
                again = tgt.to_geodataframe()
                cols = list(again.columns)
                if cols != ["geometry"]:
                    fails.append(Failure("exports_detached", site, "columns", f"step {si}: Grid.to_geodataframe() now has columns {cols} (expected ['geometry'])"))
                    return fails
                if len(again) != n_expected:
                    fails.append(Failure("exports_detached", site, "rows", f"step {si}: Grid.to_geodataframe() now has {len(again)} rows, it had {n_expected} before the caller's edit"))
                    return fails
    if not own_edit_of_orig:
        inputs_check("at the end of the history")
    return fails
