"""C02 — Derived edges are exactly the boundary segments of the faces."""

import itertools

import numpy as np
from hypothesis import strategies as st

from ..core import sampled_from  # noqa: E402

from .. import build, meshgen, refmodel
from ..core import Failure

ID = "C02"
RULE = (
    "face-node tables in standard form built through Grid.from_topology: (a) every table in a small scope enumerated "
    "exhaustively (first face fixed, further faces all ordered tuples of distinct nodes with canonical introduction of "
    "new nodes; quick: 2 faces, sizes 3-5, <=6 nodes; thorough: additionally 3 faces of sizes 3-4, <=6 nodes), (b) "
    "generated hull / voronoi / lat-lon / solid / edge-subdivided meshes with drawn extra padding columns and a drawn "
    "order of first access of the five derived quantities and a drawn memory layout of the input table (C, Fortran, strided view), optionally with a second grid of the same table shape deriving its edges in between two accesses. Non-trivial = mixed face sizes, or padding beyond one face, "
    "or two faces sharing more than one edge, or a non-default access order; distinct by case hash."
)
EXHAUSTIVE_NOTE = "enumerated sub-check covers the stated small scope completely (exhaustive within that scope only)"
ASSUMPTIONS = [
    "tables are given in standard form (INT_DTYPE, INT_FILL_VALUE padding at row ends); non-standard input is C01's subject",
    "faces have >= 3 distinct corners",
]
BUDGET = {
    "quick": dict(shards=4, examples=400),
    "thorough": dict(shards=16, examples=4000, wall_cap_s=1500),
}

ACCESS = ["n_edge", "edge_node_connectivity", "face_edge_connectivity", "n_nodes_per_face", "n_max_face_edges"]


def _placed_nodes(n):
    # distinct, generic positions (topology-only cases)
    return [[-170.0 + 47.0 * i, -60.0 + 19.0 * i] for i in range(n)]


def _enum_faces(sizes, max_nodes):
    """All tables with the given face sizes: first face (0..k-1); later faces are ordered
    tuples of distinct nodes, new nodes introduced in increasing order."""

    def rec(i, used, acc):
        if i == len(sizes):
            yield [list(f) for f in acc]
            return
        k = sizes[i]
        if i == 0:
            yield from rec(1, k, [tuple(range(k))])
            return
        # choose how many new nodes this face introduces
        for n_new in range(0, min(k, max_nodes - used) + 1):
            pool_old = range(used)
            new_nodes = list(range(used, used + n_new))
            n_old = k - n_new
            if n_old > used:
                continue
            for olds in itertools.permutations(pool_old, n_old):
                # positions of the new nodes inside the tuple (new nodes appear in increasing order)
                for pos in itertools.combinations(range(k), n_new):
                    f, oi, ni = [], 0, 0
                    for p in range(k):
                        if p in pos:
                            f.append(new_nodes[ni])
                            ni += 1
                        else:
                            f.append(olds[oi])
                            oi += 1
                    yield from rec(i + 1, used + n_new, acc + [tuple(f)])

    yield from rec(0, 0, [])


def enum_tables(tier):
    if tier == "quick":
        combos = [s for s in itertools.product((3, 4, 5), repeat=2)] + [(3,), (4,), (5,)]
        max_nodes = 6
        for sizes in combos:
            yield from ((sizes, f) for f in _enum_faces(sizes, max_nodes))
    else:
        combos = [s for s in itertools.product((3, 4, 5), repeat=2)] + [(3,), (4,), (5,), (6,), (8,)]
        for sizes in combos:
            yield from ((sizes, f) for f in _enum_faces(sizes, 7))
        for sizes in itertools.product((3, 4), repeat=3):
            yield from ((sizes, f) for f in _enum_faces(sizes, 5))


def enumerate_cases(tier, shard, nshards, ctx):
    for i, (sizes, faces) in enumerate(enum_tables(tier)):
        if i % nshards != shard:
            continue
        n = 1 + max(x for f in faces for x in f)
        yield {
            "mesh": {"nodes": _placed_nodes(n), "faces": faces, "family": "enumerated"},
            "extra_width": 0,
            "access": [0, 1, 2, 3, 4],
        }


@st.composite
def _case(draw, tier):
    big = tier != "quick"
    kind = draw(sampled_from(["any", "any", "any", "subdiv", "big"] if big else ["any", "any", "any", "subdiv"]))
    if kind == "big":
        mesh = draw(meshgen.hull_mesh(30, 110, partial=True))
    else:
        mesh = draw(meshgen.any_mesh(max_pts=40 if big else 20))
        if kind == "subdiv":
            mesh = meshgen.subdivide_edges(draw, mesh)
    extra_width = draw(sampled_from([0, 0, 0, 1, 2]))
    if draw(st.integers(0, 7)) == 0:
        # strip of k quads cut out of a structured mesh, keeping the full mesh's node numbering (row stride = nlon);
        # the row stride is drawn freely, or (half of the strips, each offset equally often) next to the number of
        # entries of the strip's own table, where index arithmetic based on the table's size breaks down
        k = draw(st.integers(1, 12))
        how = draw(st.integers(0, 5))
        if how >= 2:
            # (a key "first * base + second" with base = entries - 1 .. entries + 2 makes the vertical edge (a, a + stride)
            # collide with the horizontal edge (a + 1, a + 2) when stride = base + 2)
            k = max(k, 2)
            nlon = max(k + 2, (4 + extra_width) * k + [1, 2, 3, 4][how - 2])
        else:
            nlon = draw(st.integers(k + 2, 64))
        r0, c0 = draw(st.integers(0, 2)), draw(st.integers(0, max(0, nlon - k - 1)))
        nrow = r0 + 2
        nodes = [[-180.0 + 360.0 * (c + 0.25) / nlon, -40.0 + 20.0 * r] for r in range(nrow) for c in range(nlon)]
        faces = [[r0 * nlon + c, r0 * nlon + c + 1, (r0 + 1) * nlon + c + 1, (r0 + 1) * nlon + c] for c in range(c0, c0 + k)]
        mesh = {"nodes": nodes, "faces": faces, "family": "strip-extract-orphan-nodes"}
    gap_max = draw(sampled_from([1, 1, 1, 2, 9, 40])) if "orphan" not in mesh.get("family", "") else 1
    if gap_max > 1:
        # a table that names only some of the nodes of a longer node list (regional extract keeping the
        # numbering of the full mesh): node i moves to the running sum of drawn gaps, the nodes in between are unused
        n_old = len(mesh["nodes"])
        gaps = draw(st.lists(st.integers(1, gap_max), min_size=n_old, max_size=n_old))
        new_idx, acc = [], draw(st.integers(0, gap_max)) - 1
        for gp in gaps:
            acc += gp
            new_idx.append(acc)
        n_new = new_idx[-1] + 1 + draw(st.integers(0, 3))
        nodes = [[0.0, -89.9 + 1e-4 * (k % 1000)] for k in range(n_new)]
        for i, p_ in enumerate(mesh["nodes"]):
            nodes[new_idx[i]] = p_
        mesh = dict(mesh, nodes=nodes, faces=[[new_idx[i] for i in f] for f in mesh["faces"]])
        mesh["family"] = mesh.get("family", "?") + "-orphan-nodes"
    return {
        "mesh": mesh,
        "extra_width": extra_width,
        "access": draw(st.permutations([0, 1, 2, 3, 4])),
        "layout": draw(sampled_from(["C", "C", "F", "view"])),
        # a second grid of the same table shape (faces renumbered / corners rotated) deriving its
        # edges between two of this grid's first accesses
        "companion_after": draw(sampled_from([None, None, 0, 1, 2, 3])),
        "companion_rot": draw(st.integers(1, 7)),
        # the source ships its own edge table (own order, either direction per edge): the derived face-edge table must
        # then speak that numbering
        "supplied_edges": draw(sampled_from([None, None, None, 5, 23])),
        "subset": draw(sampled_from([None, None, None, True])) and {"faces": draw(st.lists(st.integers(0, 200), min_size=1, max_size=12)), "derive_first": draw(st.booleans())},
    }


def strategy(tier, excl):
    return _case(tier)


def _multi_shared(faces):
    ef = refmodel.edge_faces(faces)
    pairs = {}
    for e, fl in ef.items():
        if len(fl) == 2:
            k = tuple(sorted(fl))
            pairs[k] = pairs.get(k, 0) + 1
    return any(v > 1 for v in pairs.values())


def classify(case):
    mesh = case["mesh"]
    sizes = meshgen.face_sizes(mesh)
    labs = [l for l in meshgen.mesh_labels(mesh) if not l.startswith("node-") and not l.startswith("pole")]
    npad = sum(1 for s in sizes if s < max(sizes) + case["extra_width"])
    if npad > 1:
        labs.append("padding-in-several-faces")
    if case["extra_width"]:
        labs.append("extra-padding-column")
    multi = _multi_shared(mesh["faces"])
    if multi:
        labs.append("faces-share-several-edges")
    if list(case["access"]) != [0, 1, 2, 3, 4]:
        labs.append("non-default-access-order")
    labs.append("layout:" + case.get("layout", "C"))
    if mesh.get("family", "").startswith("strip-extract") and mesh["faces"] and len(mesh["faces"][0]) == 4:
        k_, stride = len(mesh["faces"]), mesh["faces"][0][3] - mesh["faces"][0][0]
        off = stride - (4 + case["extra_width"]) * k_
        labs.append(f"strip:row-stride=table-entries{off:+d}" if -1 <= off <= 5 else "strip:row-stride-free")
        if case.get("supplied_edges") is None and not case.get("subset"):
            labs.append("strip:edges-derived-from-the-table")
    if case.get("companion_after") is not None:
        labs.append("companion-grid-interleaved")
    if case.get("subset"):
        labs.append("judged-on-an-isel-subset")
    nontrivial = len(set(sizes)) > 1 or npad > 1 or multi or list(case["access"]) != [0, 1, 2, 3, 4]
    return labs, nontrivial


def run_case(case, ctx):
    INT_DTYPE, FILL = build.consts()
    mesh = case["mesh"]
    faces = mesh["faces"]
    nodes = np.asarray(mesh["nodes"], float)
    width = max(len(f) for f in faces) + case["extra_width"]
    conn = build.padded_faces(mesh, width=width)
    layout = case.get("layout", "C")
    if layout == "F":
        arg = np.asfortranarray(conn)
    elif layout == "view":
        wide = np.full((conn.shape[0] * 2, conn.shape[1] + 1), 7, dtype=conn.dtype)
        wide[::2, :-1] = conn
        arg = wide[::2, :-1]
    else:
        arg = conn.copy()
    sup = None
    if case.get("supplied_edges") is not None:
        from .. import writers

        sup = writers.numbered_edges(mesh, case["supplied_edges"])
    g = build.ux().Grid.from_topology(nodes[:, 0].copy(), nodes[:, 1].copy(), arg, fill_value=FILL, **({"edge_node_connectivity": np.array(sup, dtype=np.int64)} if sup else {}))
    site = "from_topology" + (":supplied-edges" if sup else "")
    sub = case.get("subset")
    if sub and len(faces) >= 2:
        # "every grid" includes grids produced by slicing: a drawn face subset of the grid (whose edges were or were
        # not derived before) is judged by the same oracles, its own face-node table being the definition
        if sub["derive_first"]:
            _ = g.edge_node_connectivity, g.face_edge_connectivity
        idx = sorted({i % len(faces) for i in sub["faces"]})
        g = g.isel(n_face=idx)
        conn2 = np.asarray(g.face_node_connectivity.values).reshape(len(idx), -1)
        faces = [[int(j) for j in row if j != FILL] for row in conn2]
        mesh = {"nodes": [[float(a), float(b)] for a, b in zip(g.node_lon.values, g.node_lat.values)], "faces": faces, "family": mesh.get("family", "") + "-subset"}
        nodes = np.asarray(mesh["nodes"], float)
        width = conn2.shape[1]
        conn = conn2
        case = dict(case, companion_after=None, extra_width=0)
        site = "isel-subset:" + ("edges-derived-before" if sub["derive_first"] else "pristine") + (":supplied-edges" if sup else "")
        sup = None
    got = {}
    comp_after = case.get("companion_after")
    for pos, k in enumerate(case["access"]):
        name = ACCESS[k]
        v = getattr(g, name)
        got[name] = np.array(v.values) if hasattr(v, "values") else v
        if comp_after is not None and pos == comp_after:
            r = case.get("companion_rot", 1)
            m2 = {"nodes": mesh["nodes"], "faces": [f[r % len(f):] + f[: r % len(f)] for f in reversed(faces)]}
            g2 = build.ux().Grid.from_topology(nodes[:, 0].copy(), nodes[:, 1].copy(), build.padded_faces(m2, width=width), fill_value=FILL)
            _ = g2.n_edge, g2.n_nodes_per_face.values
    fails = []

    def bad(oracle, kind, detail):
        fails.append(Failure(oracle, site, kind, detail))

    ref_edges = refmodel.edge_set(faces)
    en = np.asarray(got["edge_node_connectivity"])
    fe = np.asarray(got["face_edge_connectivity"])
    npf = np.asarray(got["n_nodes_per_face"])

    # ---- edge_set
    ctx.ev("edge_set")
    if en.ndim != 2 or en.shape[1] != 2:
        bad("edge_set", "shape", f"edge_node_connectivity shape {en.shape}")
        return fails
    if en.dtype != np.dtype(INT_DTYPE):
        bad("edge_set", "dtype", f"dtype {en.dtype}")
    pairs = [refmodel.edge_key(int(a), int(b)) for a, b in en]
    if any(FILL in p for p in pairs):
        bad("edge_set", "fill-in-edge", f"edge rows contain the fill value: {[p for p in pairs if FILL in p][:3]}")
    if len(set(pairs)) != len(pairs):
        bad("edge_set", "duplicate-edge", "an unordered node pair is listed more than once")
    if sup is not None:
        ctx.ev("supplied_edges_kept")
        if pairs != [refmodel.edge_key(a, b) for a, b in sup]:
            bad("edge_set", "supplied-table-renumbered", "edge_node_connectivity no longer lists the supplied edges in the supplied order")
    if set(pairs) != ref_edges:
        miss = sorted(ref_edges - set(pairs))[:4]
        extra = sorted(set(pairs) - ref_edges)[:4]
        bad("edge_set", "set-differs", f"missing {miss} extra {extra}")
    ctx.ev("n_edge")
    if int(got["n_edge"]) != len(ref_edges):
        bad("n_edge", "wrong", f"n_edge {got['n_edge']} expected {len(ref_edges)}")
    if en.shape[0] != len(ref_edges) and int(got["n_edge"]) == len(ref_edges):
        bad("n_edge", "table-length", f"{en.shape[0]} rows, n_edge {got['n_edge']}")

    # ---- face_edge positional
    ctx.ev("face_edge_positional")
    if fe.shape != conn.shape:
        bad("face_edge_positional", "shape", f"face_edge shape {fe.shape} vs face_node {conn.shape}")
    else:
        done = False
        for fi, f in enumerate(faces):
            n = len(f)
            for j in range(width):
                e = int(fe[fi, j])
                if j >= n:
                    if e != FILL:
                        bad("face_edge_positional", "padding", f"face {fi} pos {j}: {e} where the face has no corner")
                        done = True
                        break
                    continue
                want = refmodel.edge_key(f[j], f[(j + 1) % n])
                if e == FILL or not (0 <= e < len(pairs)):
                    bad("face_edge_positional", "fill-or-range", f"face {fi} pos {j}: entry {e}")
                    done = True
                    break
                if pairs[e] != want:
                    bad("face_edge_positional", "wrong-edge", f"face {fi} pos {j}: edge {e}={pairs[e]} expected {want}")
                    done = True
                    break
            if done:
                break
        if fe.dtype != np.dtype(INT_DTYPE):
            bad("face_edge_positional", "dtype", f"dtype {fe.dtype}")

    # ---- n_nodes_per_face
    ctx.ev("n_nodes_per_face")
    if list(map(int, npf)) != [len(f) for f in faces]:
        bad("n_nodes_per_face", "wrong", f"{list(map(int, npf))[:8]} expected {[len(f) for f in faces][:8]}")

    ctx.ev("n_max_face_edges")
    if int(got["n_max_face_edges"]) != int(g.n_max_face_nodes) or int(g.n_max_face_nodes) != width:
        bad("n_max_face_edges", "wrong", f"n_max_face_edges {got['n_max_face_edges']} n_max_face_nodes {g.n_max_face_nodes} width {width}")

    # ---- euler for closed sphere tilings
    if mesh.get("family", "") != "enumerated" and refmodel.is_closed(faces):
        ctx.ev("euler")
        n_used = len({i for f in faces for i in f})  # nodes the faces actually use (the node list may hold more)
        if n_used - int(got["n_edge"]) + int(g.n_face) != 2:
            bad("euler", "wrong", f"V-E+F = {n_used - int(got['n_edge']) + int(g.n_face)}")
    return fails
