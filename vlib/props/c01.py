"""C01 — Readers decode every supported format to the faces the source describes."""

import math
import os

import numpy as np
from hypothesis import strategies as st

from ..core import sampled_from  # noqa: E402

from .. import build, meshgen, refmodel, writers
from .. import sphere as S
from ..core import Failure

ID = "C01"
RULE = (
    "abstract meshes (hull / Voronoi / lat-lon / solids: mixed 3..8-gons, global and partial, pole and antimeridian nodes) "
    "written by my own encoders into UGRID, MPAS (primal and dual), SCRIP, Exodus, ESMF, GEOS-CS, ICON, GeoJSON / shapefile, "
    "face-vertex arrays and explicit topology arrays under a drawn dialect (start_index absent/0/1, fill none/-1/-999/999999/"
    "int64-min/NaN, int32/int64/float64, renamed variables and dimensions, 0..360 or +-180 longitudes, extra padding columns, "
    "one or several Exodus blocks, ESMF start_index attribute and pad value, MPAS zero / repeated-index / garbage padding), "
    "in memory or through a NetCDF / GeoJSON / shapefile on disk, then opened with the public readers. Oracles: faces in "
    "order with cyclically equal corner positions; standard form (dtype, fill, padding at row ends, index and coordinate "
    "ranges); supplied centres / connectivity / areas carried over with the same meaning. After the tables the source did not carry have been derived, faces and carried tables are judged again (Exodus sources with up to one block per element). Non-trivial = dialect differs from "
    "the plain one (0-based int64 with the standard fill, +-180 longitudes) or the mesh mixes face sizes; distinct by case hash."
)
ASSUMPTIONS = [
    "node numbering, the choice between -180 and 180, and the order inside an edge's node pair or a node's face list are free",
    "UGRID sources name their variables through the topology variable's attributes (as the convention requires); start_index absent means 0-based (UGRID default)",
    "GEOS-CS corner arrays carry no orientation: faces are compared up to reflection; shapefile / GeoJSON faces are compared with the rings as geopandas reads them back from the file",
    "SCRIP pads rows by repeating the last corner; consecutive duplicate positions are collapsed before comparison",
    "position equality: 1e-7 rad, or both inside the documented 1e-8 pole cap (float32 storage is not generated)",
]
BUDGET = {
    "quick": dict(shards=4, examples=300),
    "thorough": dict(shards=16, examples=2500, wall_cap_s=1800),
}
FORMATS = ["ugrid", "ugrid", "ugrid", "mpas", "mpas-dual", "scrip", "exodus", "esmf", "geos", "icon", "geo", "vertices", "topology"]


@st.composite
def _mesh(draw, big, tri_only=False, manifold=False):
    if tri_only:
        return draw(meshgen.hull_mesh(4, 22 if big else 12, partial=False, merge=False))
    fam = draw(sampled_from(["hull", "hull", "voronoi", "latlon", "solid"]))
    if fam == "hull":
        m = draw(meshgen.hull_mesh(4, 26 if big else 12, partial=True))
    elif fam == "voronoi":
        m = draw(meshgen.voronoi_mesh(6, 20 if big else 12, renumber=True))
    elif fam == "latlon":
        m = draw(meshgen.latlon_mesh_st())
    else:
        m = draw(meshgen.solid_mesh_st())
    m.pop("centers", None)
    return m


@st.composite
def _case(draw, tier):
    big = tier != "quick"
    fmt = draw(sampled_from(FORMATS))
    d = {}
    mesh = None
    if fmt == "ugrid":
        mesh = draw(_mesh(big))
        d = {
            "start_index": draw(sampled_from([None, 0, 1, 1])),
            "fill": draw(sampled_from([None, -1, -999, 999999, "int64min", "nan"])),
            "dtype": draw(sampled_from(["int32", "int64", "float64"])),
            "names": draw(st.integers(0, 2)),
            "lon360": draw(st.booleans()),
            "face_coords": draw(st.booleans()),
            "centres_lon360": draw(st.booleans()),
            "extras": draw(sampled_from([[], [], ["edge_node_connectivity"], ["edge_node_connectivity", "face_edge_connectivity"], ["edge_node_connectivity", "face_edge_connectivity", "edge_face_connectivity"]])),
            "edge_seed": draw(st.integers(0, 99)),
            "dim_attrs": draw(st.booleans()),
            "extra_cols": draw(sampled_from([0, 0, 1])),
        }
        if d["fill"] == "int64min":
            d["dtype"] = "int64"
    elif fmt in ("mpas", "mpas-dual"):
        mesh = draw(meshgen.voronoi_mesh(6, 20 if big else 12, renumber=False))
        if fmt == "mpas" and len(mesh["faces"]) >= 6 and draw(st.integers(0, 2)) == 0:
            # a limited-area (regional) MPAS mesh: some cells removed, so cellsOnEdge / cellsOnVertex / cellsOnCell hold
            # zeros for the missing neighbours (primal only: the specification is silent on the dual of such a mesh)
            drop = {k % len(mesh["faces"]) for k in draw(st.lists(st.integers(0, 10_000), min_size=1, max_size=4))}
            keep = [f for i, f in enumerate(mesh["faces"]) if i not in drop]
            used = sorted({i for f in keep for i in f})
            re_ = {o: k for k, o in enumerate(used)}
            mesh = {"nodes": [mesh["nodes"][o] for o in used], "faces": [[re_[i] for i in f] for f in keep], "family": "voronoi-regional"}
        d = {
            "padding": draw(sampled_from(["zeros", "repeat-last", "garbage"])),
            "radius": draw(sampled_from([1.0, 6371229.0])),
            "edge_seed": draw(st.integers(0, 99)),
            "max_edges_extra": draw(sampled_from([0, 0, 2])),
            "int_dtype": draw(sampled_from(["int32", "int64"])),
            "coords": "both" if fmt == "mpas-dual" else draw(sampled_from(["both", "latlon", "xyz"])),  # the MPAS spec lists both
        }
    elif fmt == "scrip":
        mesh = draw(_mesh(big))
        d = {"lon360": draw(st.booleans()), "centres_lon360": draw(st.booleans())}  # SCRIP fixes its dimension names
    elif fmt == "exodus":
        mesh = draw(_mesh(big))
        d = {
            "coord": draw(sampled_from(["coord", "xyz"])),
            "blocks": draw(sampled_from(["one", "by-size", "by-size-desc", "runs-1", "runs-2", "runs-4"])),
            "dtype": draw(sampled_from(["int32", "int64"])),
            "radius": draw(sampled_from([1.0, 1.0, 2.5])),
        }
    elif fmt == "esmf":
        mesh = draw(_mesh(big))
        d = {
            "start_index": draw(sampled_from([None, 0, 1])),
            "pad": draw(sampled_from([-1, -1, 0, 77])),
            "dtype": draw(sampled_from(["int32", "int64"])),
            "lon360": draw(st.booleans()),
            "centers": draw(st.booleans()),
            "centres_lon360": draw(st.booleans()),
            "extra_cols": draw(sampled_from([0, 1])),
        }
    elif fmt == "geos":
        d = {"n": draw(st.integers(1, 4)), "lon360": draw(st.booleans()), "centers": draw(st.booleans())}
    elif fmt == "icon":
        mesh = draw(_mesh(big, tri_only=True))
        d = {"dtype": draw(sampled_from(["int32", "int64"])), "edge_seed": draw(st.integers(0, 99))}
    elif fmt == "geo":
        mesh = draw(meshgen.hull_mesh(4, 14, partial=True, planted=False))
        d = {"driver": draw(sampled_from(["geojson", "shp"])), "multi": draw(sampled_from([0, 0, 2, 3]))}
    elif fmt == "vertices":
        mesh = draw(_mesh(big))
        d = {"latlon": draw(st.booleans()), "container": draw(sampled_from(["ndarray", "list", "tuple"])), "via_open_grid": draw(st.booleans())}
        if draw(st.integers(0, 4)) == 0:
            # one face only, handed over as a two-dimensional array (the documented short form)
            f0 = mesh["faces"][draw(st.integers(0, 50)) % len(mesh["faces"])]
            used = sorted(set(f0))
            mesh = {"nodes": [mesh["nodes"][o] for o in used], "faces": [[used.index(i) for i in f0]], "family": "single-face"}
            d["single_2d"] = True
    elif fmt == "topology":
        mesh = draw(_mesh(big))
        d = {
            "start_index": draw(sampled_from([0, 1])),
            "fill": draw(sampled_from([None, -1, -999, "int64min"])),
            "dtype": draw(sampled_from(["int32", "int64"])),
            "via_dict": draw(st.booleans()),
            "lon360": draw(st.booleans()),
            "face_coords": draw(st.booleans()),
            # arguments equal to their documented default (start_index=0, fill_value=None) are left out of the call
            "omit_defaults": draw(st.booleans()),
        }
    disk = draw(sampled_from([False, False, False, True])) if fmt in ("ugrid", "mpas", "mpas-dual", "scrip", "exodus", "esmf", "icon") else False
    return {"format": fmt, "mesh": mesh, "dialect": d, "disk": disk}


def strategy(tier, excl):
    return _case(tier)


def classify(case):
    fmt, d = case["format"], case["dialect"]
    labs = ["format:" + fmt, "disk" if case["disk"] else "memory"]
    mixed = False
    if case["mesh"] is not None:
        sizes = {len(f) for f in case["mesh"]["faces"]}
        mixed = len(sizes) > 1
        if mixed:
            labs.append("mixed-size")
        labs += [l for l in meshgen.mesh_labels(case["mesh"]) if l in ("partial", "closed", "pole-node", "node-on-antimeridian", "antimeridian-face")]
        if case["mesh"].get("family") == "voronoi-regional":
            labs.append("mpas:limited-area-mesh")
    for k in ("start_index", "fill", "dtype", "lon360", "padding", "blocks", "coord", "pad", "driver", "multi", "latlon", "coords"):
        if k in d:
            labs.append(f"{k}={d[k]}")
    plain = fmt in ("ugrid", "topology") and d.get("start_index") in (0,) and d.get("fill") in (None, "int64min") and d.get("dtype") == "int64" and not d.get("lon360")
    return labs, (mixed or not plain)


# ----------------------------------------------------------------------------- judging
def _grid_faces(g):
    INT_DTYPE, FILL = build.consts()
    lon = np.asarray(g.node_lon.values, float)
    lat = np.asarray(g.node_lat.values, float)
    conn = np.asarray(g.face_node_connectivity.values)
    if conn.ndim == 1:
        conn = conn[None, :]
    return conn, lon, lat


def _standard_form(g, fails, site, ctx):
    INT_DTYPE, FILL = build.consts()
    conn, lon, lat = _grid_faces(g)
    ctx.ev("standard_form")

    def bad(kind, detail):
        fails.append(Failure("standard_form", site, kind, detail))

    da = g.face_node_connectivity
    if conn.dtype != INT_DTYPE:
        bad("dtype", f"face_node_connectivity dtype {conn.dtype}, standard is {np.dtype(INT_DTYPE)}")
        return False
    n_node = g.n_node
    ok = True
    for i, row in enumerate(conn):
        real = row != FILL
        k = int(real.sum())
        if not np.all(real[:k]) or np.any(real[k:]):
            bad("padding-inside-row", f"face {i}: {row.tolist()}")
            ok = False
            break
        if k < 3:
            bad("fewer-than-3-corners", f"face {i}: {row.tolist()}")
            ok = False
            break
        if np.any(row[:k] < 0) or np.any(row[:k] >= n_node):
            bad("index-out-of-range", f"face {i}: {row.tolist()} with n_node {n_node}")
            ok = False
            break
    if ok:
        try:
            npf = np.asarray(g.n_nodes_per_face.values)
            if npf.shape != (conn.shape[0],) or not np.array_equal(npf, (conn != FILL).sum(axis=1)):
                bad("n_nodes_per_face", f"n_nodes_per_face {npf.tolist()[:8]} but the rows have {(conn != FILL).sum(axis=1).tolist()[:8]} corners")
                ok = False
        except Exception as e:  # noqa
            bad("n_nodes_per_face-unavailable", repr(e)[:200])
            ok = False
    if ok and np.any(conn == FILL):
        fv = da.attrs.get("_FillValue", None)
        if fv is None or int(fv) != FILL:
            bad("fill-attr", f"_FillValue attribute is {fv!r} although rows are padded with {FILL}")
    if lon.size and (np.nanmin(lon) < -180.0 - 1e-9 or np.nanmax(lon) > 180.0 + 1e-9 or not np.all(np.isfinite(lon))):
        bad("lon-range", f"node_lon in [{np.nanmin(lon)!r}, {np.nanmax(lon)!r}]")
        ok = False
    if lat.size and (np.nanmin(lat) < -90.0 - 1e-9 or np.nanmax(lat) > 90.0 + 1e-9 or not np.all(np.isfinite(lat))):
        bad("lat-range", f"node_lat in [{np.nanmin(lat)!r}, {np.nanmax(lat)!r}]")
        ok = False
    return ok


def _faces_match(g, expected, fails, site, ctx, allow_reflection=False, as_multiset=False):
    INT_DTYPE, FILL = build.consts()
    conn, lon, lat = _grid_faces(g)
    ctx.ev("faces_match")
    if conn.shape[0] != len(expected):
        fails.append(Failure("faces_match", site, "n_face", f"grid has {conn.shape[0]} faces, source describes {len(expected)}"))
        return
    got, distinct = [], []
    for row in conn:
        idx = [int(i) for i in row if i != FILL]
        if any(i < 0 or i >= len(lon) for i in idx):
            fails.append(Failure("faces_match", site, "index-out-of-range", f"row {row.tolist()}"))
            return
        got.append([S.ll2xyz(lon[i], lat[i]) for i in idx])
        distinct.append(len(set(idx)))
    # tolerance-free: the corners of a source face are distinct nodes however close together (a reader may pad a
    # short face by repeating a corner, so what is counted is distinct nodes per face)
    want = [len(f) for f in expected]
    if (sorted(distinct) != sorted(want)) if as_multiset else (distinct != want):
        k = next((i for i in range(len(want)) if distinct[i] != want[i]), 0) if not as_multiset else -1
        fails.append(Failure("faces_match", site, "corner-count", f"distinct nodes per face {distinct[:12]} but the source faces have {want[:12]} corners (first difference at face {k})"))
        return

    # position tolerance: 1e-7 rad, but never more than a fifth of the smallest distance between two distinct
    # source corners (micro patches), so that a grid corner can only be taken for the source corner it is
    pts = sorted({p for f in expected for p in f})
    tol = 1e-7
    if 1 < len(pts) <= 400:
        P = np.asarray(pts, float)
        d = np.linalg.norm(P[:, None, :] - P[None, :, :], axis=2)
        d[d < 1e-15] = np.inf  # the same point listed twice / the two ends of a pole
        dmin = float(d.min())
        if np.isfinite(dmin):
            tol = min(tol, 0.2 * dmin)

    def same(a, b):
        if S.cyclic_equal_positions(a, b, tol):
            return True
        return allow_reflection and S.cyclic_equal_positions(a, list(reversed(b)), tol)

    if as_multiset:
        left = list(range(len(expected)))
        for fi, gf in enumerate(got):
            hit = next((k for k in left if same(gf, expected[k])), None)
            if hit is None:
                fails.append(Failure("faces_match", site, "face-not-in-source", f"grid face {fi} {[S.xyz2ll(p) for p in gf]} matches no remaining source face"))
                return
            left.remove(hit)
        return
    for fi, (gf, ef) in enumerate(zip(got, expected)):
        if not same(gf, ef):
            rev = S.cyclic_equal_positions(gf, list(reversed(ef)))
            setsame = len(gf) == len(ef) and all(any(S.same_position(p, q) for q in ef) for p in gf)
            kind = "reversed" if rev else ("corner-order" if setsame else "corner-positions")
            fails.append(
                Failure(
                    "faces_match",
                    site,
                    kind,
                    f"face {fi}: grid corners {[tuple(round(c, 6) for c in S.xyz2ll(p)) for p in gf]} but the source describes {[tuple(round(c, 6) for c in S.xyz2ll(p)) for p in ef]}",
                )
            )
            return


def _centres_carried(g, xyz_c, fails, site, ctx, what="face"):
    ctx.ev("carried_over")
    try:
        lon = np.asarray(getattr(g, what + "_lon").values, float)
        lat = np.asarray(getattr(g, what + "_lat").values, float)
    except Exception as e:  # noqa
        fails.append(Failure("carried_over", site, f"{what}-centres-unavailable", repr(e)[:300]))
        return
    if len(lon) != len(xyz_c):
        fails.append(Failure("carried_over", site, f"{what}-centres-count", f"{len(lon)} vs {len(xyz_c)}"))
        return
    for k in range(len(lon)):
        if not S.same_position(S.ll2xyz(lon[k], lat[k]), tuple(xyz_c[k])):
            fails.append(Failure("carried_over", site, f"{what}-centre-moved", f"{what} {k}: grid reports ({lon[k]!r}, {lat[k]!r}), source supplied {S.xyz2ll(tuple(xyz_c[k]))}"))
            return
    if np.nanmin(lon) < -180 - 1e-9 or np.nanmax(lon) > 180 + 1e-9:
        fails.append(Failure("standard_form", site, f"{what}-lon-range", f"{what}_lon in [{np.nanmin(lon)!r}, {np.nanmax(lon)!r}]"))


def _conn_carried(g, info, expected_node_pos, fails, site, ctx):
    """edge_node / face_edge / edge_face supplied by the source: same element pairs, re-indexed consistently."""
    INT_DTYPE, FILL = build.consts()
    lon = np.asarray(g.node_lon.values, float)
    lat = np.asarray(g.node_lat.values, float)
    P = [S.ll2xyz(a, b) for a, b in zip(lon, lat)]

    def node_of(pos):
        return next((i for i, p in enumerate(P) if S.same_position(p, pos)), None)

    src2grid = [node_of(tuple(p)) for p in expected_node_pos]
    if "edge_nodes" in info and "edge_node_connectivity" in g._ds:
        ctx.ev("carried_over")
        en = np.asarray(g.edge_node_connectivity.values)
        if en.dtype != INT_DTYPE:
            fails.append(Failure("standard_form", site, "edge_node-dtype", f"{en.dtype}"))
        if en.shape != (len(info["edge_nodes"]), 2):
            fails.append(Failure("carried_over", site, "edge_node-shape", f"{en.shape} vs {len(info['edge_nodes'])} supplied edges"))
            return
        for e, (a, b) in enumerate(info["edge_nodes"]):
            if {int(en[e, 0]), int(en[e, 1])} != {src2grid[a], src2grid[b]}:
                fails.append(Failure("carried_over", site, "edge_node-pair", f"edge {e}: grid {en[e].tolist()} but the source's edge {e} joins source nodes {(a, b)} = grid nodes {(src2grid[a], src2grid[b])}"))
                return
        if "face_edges" in info and "face_edge_connectivity" in g._ds:
            fe = np.asarray(g.face_edge_connectivity.values)
            if fe.dtype != INT_DTYPE:
                fails.append(Failure("standard_form", site, "face_edge-dtype", f"{fe.dtype}"))
            for f, row in enumerate(info["face_edges"]):
                got = sorted(int(x) for x in fe[f] if x != FILL)
                if got != sorted(row):
                    fails.append(Failure("carried_over", site, "face_edge-set", f"face {f}: grid {fe[f].tolist()} source edges {row}"))
                    return
        if "edge_faces" in info and "edge_face_connectivity" in g._ds:
            ef = np.asarray(g.edge_face_connectivity.values)
            if ef.dtype != INT_DTYPE:
                fails.append(Failure("standard_form", site, "edge_face-dtype", f"{ef.dtype}"))
            for e, row in enumerate(info["edge_faces"]):
                got = sorted(int(x) for x in ef[e] if x != FILL)
                if got != sorted(row):
                    fails.append(Failure("carried_over", site, "edge_face-set", f"edge {e}: grid {ef[e].tolist()} source faces {row}"))
                    return


def _open(ux, ds, case, ctx, **kw):
    if case["disk"]:
        path = ctx.tmp_path(".nc")
        writers.to_disk(ds, path)
        try:
            return ux.open_grid(path, **kw)
        finally:
            try:
                os.remove(path)
            except OSError:
                pass
    return ux.open_grid(ds, **kw)


def run_case(case, ctx):
    INT_DTYPE, FILL = build.consts()
    ux = build.ux()
    fmt, d, mesh = case["format"], dict(case["dialect"]), case["mesh"]
    fails = []
    site = fmt + (":disk" if case["disk"] else "")
    allow_reflection = False
    multiset = False
    info = {}
    node_pos = None
    if mesh is not None:
        xyz = meshgen.mesh_xyz(mesh)
        expected = [[tuple(xyz[i]) for i in f] for f in mesh["faces"]]
        node_pos = xyz

    if fmt == "ugrid":
        if d.get("fill") == "int64min":
            d["fill"] = FILL
        ds, info = writers.ugrid_dataset(mesh, d)
        site += f":si={d['start_index']}:fill={case['dialect']['fill']}:{d['dtype']}"
        g = _open(ux, ds, case, ctx)
    elif fmt in ("mpas", "mpas-dual"):
        coords = d.pop("coords")
        ds, winfo = writers.mpas_dataset(mesh, edge_perm_seed=d["edge_seed"], padding=d["padding"], radius=d["radius"], max_edges_extra=d["max_edges_extra"], int_dtype=d["int_dtype"], with_xyz=coords in ("both", "xyz"), with_latlon=coords in ("both", "latlon"))
        site += f":{d['padding']}"
        dual = fmt == "mpas-dual"
        g = _open(ux, ds, case, ctx, use_dual=dual)
        if dual:
            # dual faces: one per primal vertex with >= 3 cells, corners = cell centres in ring order
            expected = [[tuple(winfo["xyz_c"][c]) for c in ring] for ring in winfo["rings"]]
            node_pos = winfo["xyz_c"]
            # on the dual an edge joins the two cells on either side of the primal edge and separates its two vertices
            info = {"xyz_c": winfo["xyz_v"], "areas": winfo["area_t"], "edge_nodes": winfo["edge_cells"], "edge_faces": winfo["edge_nodes"], "xyz_e": winfo["xyz_e"]}
        else:
            info = {"xyz_c": winfo["xyz_c"], "areas": winfo["area_c"], "edge_nodes": winfo["edge_nodes"], "edge_faces": winfo["edge_cells"], "xyz_e": winfo["xyz_e"]}
        if coords == "xyz":
            info.pop("xyz_e")  # edge lon/lat are then derived, which C04 judges
    elif fmt == "scrip":
        ds, info = writers.scrip_dataset(mesh, d)
        g = _open(ux, ds, case, ctx)
    elif fmt == "exodus":
        ds, xinfo = writers.exodus_dataset(mesh, d)
        site += f":{d['coord']}:{d['blocks']}"
        g = _open(ux, ds, case, ctx)
        expected = [expected[i] for i in xinfo["face_order"]]
    elif fmt == "esmf":
        ds, info = writers.esmf_dataset(mesh, d)
        site += f":si={d['start_index']}:pad={d['pad']}"
        g = _open(ux, ds, case, ctx)
    elif fmt == "geos":
        ds, expected, info = writers.geos_dataset(d["n"], d)
        allow_reflection = True
        g = ux.open_grid(ds)
    elif fmt == "icon":
        ds, info = writers.icon_dataset(mesh, d)
        g = _open(ux, ds, case, ctx)
    elif fmt == "geo":
        import geopandas as gpd
        from shapely.geometry import MultiPolygon, Polygon

        polys = [Polygon([tuple(mesh["nodes"][i]) for i in f]) for f in mesh["faces"]]
        # planar polygons: drop faces that cross the antimeridian or touch a pole (not representable as one ring)
        polys = [p for p in polys if p.is_valid and p.area > 0 and (p.bounds[2] - p.bounds[0]) < 180.0]
        if not polys:
            ctx.label("no-verdict:no-planar-faces")
            return fails
        geoms = []
        k = d["multi"]
        i = 0
        while i < len(polys):
            if k and i + k <= len(polys) and (i // max(k, 1)) % 2 == 0:
                geoms.append(MultiPolygon(polys[i : i + k]))
                i += k
            else:
                geoms.append(polys[i])
                i += 1
        gdf = gpd.GeoDataFrame({"id": list(range(len(geoms)))}, geometry=geoms, crs="EPSG:4326")
        ext = ".geojson" if d["driver"] == "geojson" else ".shp"
        path = ctx.tmp_path(ext)
        gdf.to_file(path, driver="GeoJSON" if d["driver"] == "geojson" else "ESRI Shapefile")
        site += ":" + d["driver"] + (":multi" if k else "")
        back = gpd.read_file(path)
        expected = []
        for geom in back.geometry:
            parts = list(geom.geoms) if geom.geom_type == "MultiPolygon" else [geom]
            for p in parts:
                expected.append([S.ll2xyz(x, y) for x, y in list(p.exterior.coords)[:-1]])
        import contextlib
        import io

        with contextlib.redirect_stdout(io.StringIO()):
            g = ux.Grid.from_file(path)
        for fn in os.listdir(os.path.dirname(path)):
            if fn.startswith(os.path.basename(path)[: -len(ext)] + "."):
                try:
                    os.remove(os.path.join(os.path.dirname(path), fn))
                except OSError:
                    pass
    elif fmt == "vertices":
        width = max(len(f) for f in mesh["faces"])
        if d["latlon"]:
            arr = np.full((len(mesh["faces"]), width, 2), float(FILL))
            for i, f in enumerate(mesh["faces"]):
                arr[i, : len(f)] = [mesh["nodes"][k] for k in f]
        else:
            arr = np.full((len(mesh["faces"]), width, 3), float(FILL))
            for i, f in enumerate(mesh["faces"]):
                arr[i, : len(f)] = [xyz[k] for k in f]
        site += ":latlon" if d["latlon"] else ":xyz"
        if d.get("single_2d"):
            arr = arr[0]
            site += ":single-face-2d"
        obj = arr if d["container"] == "ndarray" else (arr.tolist() if d["container"] == "list" else tuple(map(tuple, arr.tolist())))
        if any(len(f) != width for f in mesh["faces"]):
            site += ":padded"
        g = ux.open_grid(obj, latlon=d["latlon"]) if d["via_open_grid"] else ux.Grid.from_face_vertices(obj, latlon=d["latlon"])
    elif fmt == "topology":
        fill = FILL if d["fill"] == "int64min" else d["fill"]
        width = max(len(f) for f in mesh["faces"])
        mixed = any(len(f) != width for f in mesh["faces"])
        if mixed and fill is None:
            fill = -1
        dt = "int64" if fill == FILL else d["dtype"]
        conn = writers.padded(mesh["faces"], width, 0 if fill is None else fill, dt, d["start_index"])
        nodes = np.asarray(mesh["nodes"], float)
        kw = dict(node_lon=writers.wrap_lon(nodes[:, 0], d["lon360"]), node_lat=nodes[:, 1].copy(), face_node_connectivity=conn, fill_value=fill, start_index=d["start_index"])
        if d["face_coords"]:
            c = writers.face_centres_xyz(mesh)
            flon, flat = writers.lonlat_of(c, d["lon360"])
            kw["face_lon"], kw["face_lat"] = flon, flat
            info["xyz_c"] = c
        site += f":si={d['start_index']}:fill={d['fill']}:{dt}"
        if d.get("omit_defaults"):
            if kw["start_index"] == 0:
                del kw["start_index"]
                site += ":si-omitted"
            if kw["fill_value"] is None:
                del kw["fill_value"]
        g = ux.open_grid(kw) if d["via_dict"] else ux.Grid.from_topology(**kw)
    else:
        raise AssertionError(fmt)

    if fmt == "exodus":
        multiset = False
    if _standard_form(g, fails, site, ctx):
        _faces_match(g, expected, fails, site, ctx, allow_reflection=allow_reflection, as_multiset=multiset)
    if fails:
        return fails
    if "xyz_c" in info:
        _centres_carried(g, info["xyz_c"], fails, site, ctx, "face")
    if "xyz_e" in info:
        _centres_carried(g, info["xyz_e"], fails, site, ctx, "edge")
    if fmt in ("ugrid", "icon", "mpas", "mpas-dual") and node_pos is not None:
        _conn_carried(g, info, node_pos, fails, site, ctx)
    if "areas" in info and fmt in ("mpas", "mpas-dual", "scrip"):
        ctx.ev("carried_over")
        try:
            fa = np.asarray(g.face_areas.values, float)
            exp = np.asarray(info["areas"], float)
            if fmt == "scrip":
                pass  # SCRIP grid_area is not documented as carried; areas are judged by C05
            elif fa.shape != exp.shape or not np.allclose(fa, exp, rtol=1e-12, atol=0):
                fails.append(Failure("carried_over", site, "areas", f"face_areas {fa[:3]} vs supplied {exp[:3]}"))
        except Exception as e:  # noqa
            fails.append(Failure("carried_over", site, "areas-unavailable", repr(e)[:300]))
    if fails:
        return fails
    # what the source carried is still what the grid reports once the tables it did not carry have been derived
    derived = [q for q in ("face_edge_connectivity", "edge_face_connectivity", "node_face_connectivity", "face_face_connectivity", "edge_node_connectivity") if q not in g._ds]
    if derived and fmt in ("ugrid", "icon", "mpas", "mpas-dual") and node_pos is not None:
        for q in derived:
            getattr(g, q)
        site2 = site + ":after-derive"
        _faces_match(g, expected, fails, site2, ctx, allow_reflection=allow_reflection, as_multiset=multiset)
        if not fails:
            _conn_carried(g, info, node_pos, fails, site2, ctx)
        if not fails and "xyz_e" in info:
            _centres_carried(g, info["xyz_e"], fails, site2, ctx, "edge")
    return fails
