"""C12 — Remapping picks true nearest sources and never invents values."""

import math

import numpy as np
from hypothesis import strategies as st

from ..core import sampled_from  # noqa: E402

from .. import build, datagen, meshgen, writers
from .. import sphere as S
from ..core import Failure

ID = "C12"
RULE = (
    "source / destination grid pairs (hull, Voronoi with generator points supplied as face centres, lat-lon, and solids where "
    "n_node == n_face or n_node == n_edge) x data on nodes, edges or faces (the dimension name decides) with 0-2 leading "
    "dimensions x the three destinations x both coordinate types x nearest-neighbour or inverse-distance weighting (k in "
    "2..min(8, n), power in {0.5, 1, 2, 3, 4, 5}; a quarter of the meshes are regional patches with cells of 1e-3 .. 0.5 degrees, where distance ** power is below the 1e-6 regularisation of the weights). Oracles: brute-force great-circle nearest source element of the data's own "
    "kind (destinations whose runner-up is within 1e-9 rad are skipped); identity when remapped onto the source's own "
    "elements; for IDW the full weight matrix is extracted with one call on an identity-matrix field and must be a convex "
    "combination supported on the brute-force k nearest, non-increasing with distance, and every other field must equal "
    "data @ weights. Destinations include a second Grid of the source mesh (plain, with other supplied face centres, or with its own supplied edge numbering); either grid may supply its own edge table and Cartesian node coordinates on a sphere of radius 1, 2.5 or 6371. Non-trivial = element counts coincide, or data have leading dimensions, or the data kind differs from "
    "the destination kind, or centres are supplied; distinct by case hash."
)
ASSUMPTIONS = [
    "the element dimension is the last dimension (what the implementation documents)",
    "element positions are recomputed from the mesh: nodes, arc midpoints in the grid's own edge numbering, normalised corner mean or the supplied centre",
    "k is admissible when 2 <= k <= min(n_node, number of source elements of the data's kind)",
    "IDW weights may use the tree's distance (degrees or chord): only their order, sign and sum are asserted",
    "steps whose source or destination elements have a centre inside the documented pole-snapping cap give no verdict",
]
BUDGET = {
    "quick": dict(shards=4, examples=200),
    "thorough": dict(shards=16, examples=2500, wall_cap_s=1500),
}
KIND_DIM = {"nodes": "n_node", "edge centers": "n_edge", "face centers": "n_face"}
GAP = 1e-9


@st.composite
def _mesh(draw, big, solids=True):
    fam = draw(sampled_from(["hull", "hull", "voronoi-centres", "latlon", "solid", "solid", "fine", "fine"] if solids else ["hull", "voronoi-centres", "latlon"]))
    if fam == "fine":
        # regional patch with cells of 1e-3 .. 0.5 degrees: distance ** power drops below the 1e-6 the weights are regularised with
        m = draw(meshgen.tiny_patch_mesh())
    elif fam == "hull":
        m = draw(meshgen.hull_mesh(4, 26 if big else 12, partial=True))
    elif fam == "voronoi-centres":
        m = draw(meshgen.voronoi_mesh(6, 20 if big else 12, renumber=False))
    elif fam == "latlon":
        m = draw(meshgen.latlon_mesh_st())
    else:
        m = draw(meshgen.solid_mesh_st())
    if fam != "voronoi-centres":
        m.pop("centers", None)
    return m


@st.composite
def _case(draw, tier):
    big = tier != "quick"
    src = draw(_mesh(big))
    same = draw(sampled_from([False, False, True]))
    dst = src if same else draw(_mesh(big))
    # fine patches are generated with lon/lat or unit-sphere coordinates only (DESIGN section 16: the combination with
    # non-unit Cartesian coordinates is an open, untriaged observation and is not judged)
    fine = src.get("family") == "tiny-patch" or dst.get("family") == "tiny-patch"
    kind = draw(sampled_from(["nodes", "edge centers", "face centers"]))
    return {
        "src": src,
        "dst": None if same else dst,
        "kind": kind,
        "remap_to": draw(sampled_from(["nodes", "edge centers", "face centers"])),
        "coord_type": draw(sampled_from(["spherical", "cartesian"])),
        "method": draw(sampled_from(["nn", "nn", "idw"])),
        "k": draw(sampled_from([2, 3, 4, 5, 6, 7, 8, 8, 8])),
        # arguments equal to the documented defaults (remap_to="face centers", coord_type="spherical", power=2, k=8) are left out
        "defaults": draw(st.booleans()),
        "power": draw(sampled_from([0.5, 1, 2, 2, 3, 4, 5])),
        "lead": draw(st.lists(st.integers(1, 3), max_size=2)),
        "dtype": draw(sampled_from(["float64", "float64", "float32", "int64"])),
        "seed": draw(st.integers(0, 2**31 - 1)),
        "materialise_edges_first": draw(st.booleans()),
        "moved_centres": draw(sampled_from([False, False, False, True])),
        # onto the source mesh: the source Grid object itself, or a second Grid of the same nodes and faces (plain, with
        # other face centres supplied, or with its own supplied edge numbering)
        "twin": draw(sampled_from(["object", "object", "twin", "twin-centres", "twin-edges"])) if same else None,
        "src_edge_seed": draw(sampled_from([None, None, 3, 17])),
        # Cartesian node coordinates supplied on a sphere of this radius (None: lon/lat only)
        "radius_src": draw(sampled_from([None, None, None, 1.0, 2.5, 6371.0] if not fine else [None, None, None, 1.0, 1.0, 1.0])),
        "radius_dst": draw(sampled_from([None, None, None, 1.0, 2.5, 6371.0] if not fine else [None, None, None, 1.0, 1.0, 1.0])),
    }


def strategy(tier, excl):
    return _case(tier)


def _counts(mesh):
    from .. import refmodel

    return len(mesh["nodes"]), len(refmodel.edge_set(mesh["faces"])), len(mesh["faces"])


def classify(case):
    nn, ne, nf = _counts(case["src"])
    labs = ["method:" + case["method"], "data:" + case["kind"], "to:" + case["remap_to"], "coord:" + case["coord_type"], f"lead:{len(case['lead'])}"]
    co = nn == nf or nn == ne or ne == nf
    if nn == nf:
        labs.append("src:n_node==n_face")
    if nn == ne:
        labs.append("src:n_node==n_edge")
    if ne == nf:
        labs.append("src:n_edge==n_face")
    if case["src"].get("family") == "tiny-patch":
        labs.append("src:fine-patch")
        if case["dst"] is None and case["method"] == "idw":
            labs.append("idw-fine-patch-onto-itself:" + case["coord_type"])
    if case["dst"] is None:
        labs.append("onto-source-grid:" + str(case.get("twin") or "object"))
    if case.get("radius_src") not in (None, 1.0) or case.get("radius_dst") not in (None, 1.0):
        labs.append("non-unit-cartesian-supplied")
    if case.get("src_edge_seed") is not None:
        labs.append("src:edges-supplied")
    sup = bool(case["src"].get("centers"))
    if sup:
        labs.append("src:centres-supplied")
    return labs, (co or bool(case["lead"]) or case["kind"] != case["remap_to"] or sup)


def _grid(mesh, radius=None, edge_seed=None):
    kw = {}
    if mesh.get("centers"):
        c = np.asarray(mesh["centers"], float)
        kw["face_lon"], kw["face_lat"] = c[:, 0].copy(), c[:, 1].copy()
    if radius is not None:
        xyz = meshgen.mesh_xyz(mesh) * radius
        kw["node_x"], kw["node_y"], kw["node_z"] = (np.ascontiguousarray(xyz[:, i]) for i in range(3))
    if edge_seed is not None:
        kw["edge_node_connectivity"] = np.array(writers.numbered_edges(mesh, edge_seed), dtype=np.int64)
    return build.grid_from_mesh(mesh, **kw)


def _positions(g, mesh, kind):
    xyz = meshgen.mesh_xyz(mesh)
    if kind == "nodes":
        return xyz
    if kind == "face centers":
        return writers.face_centres_xyz(mesh)  # supplied centres when the mesh carries them
    en = np.asarray(g.edge_node_connectivity.values)
    return np.array([S.arc_midpoint(tuple(xyz[a]), tuple(xyz[b])) for a, b in en])


def _in_cap(P):
    rho = np.hypot(P[:, 0], P[:, 1])
    return bool(np.any((rho > 1e-15) & (rho < 2e-4)))


def run_case(case, ctx):
    ux = build.ux()
    fails = []
    src_mesh = case["src"]
    dst_mesh = case["dst"] or src_mesh
    twin = case.get("twin") or "object"
    if case["dst"] is None and twin == "twin-centres":
        # same nodes and faces, but this grid's face centres are supplied: the midpoint of each face's first edge
        xyz_s = meshgen.mesh_xyz(src_mesh)
        mid = np.array([S.arc_midpoint(tuple(xyz_s[f[0]]), tuple(xyz_s[f[1]])) for f in src_mesh["faces"]])
        lo, la = writers.lonlat_of(mid)
        dst_mesh = dict(src_mesh, centers=[[float(a), float(b)] for a, b in zip(lo, la)])
    gs = _grid(src_mesh, case.get("radius_src"), case.get("src_edge_seed"))
    if case["dst"] is None and twin == "object":
        gd = gs
    else:
        gd = _grid(dst_mesh, case.get("radius_dst"), 29 if twin == "twin-edges" else None)
    if case["materialise_edges_first"]:
        gs.edge_node_connectivity
    kind, remap_to, coord_type = case["kind"], case["remap_to"], case["coord_type"]
    site = f"{case['method']}/{kind.split()[0]}->{remap_to.split()[0]}/{coord_type}"
    nn_, ne_, nf_ = _counts(src_mesh)
    if nn_ == nf_ or nn_ == ne_ or ne_ == nf_:
        site += ":counts-coincide"

    def bad(oracle, k, detail):
        fails.append(Failure(oracle, site, k, detail))

    P = _positions(gs, src_mesh, kind)
    Q = _positions(gd, dst_mesh, remap_to)
    if case.get("moved_centres") and kind == "face centers" and not src_mesh.get("centers") and case.get("radius_src") in (None, 1.0):
        # history: a first remap, then the source's face centres are moved through the public setters
        # (to the midpoint of each face's first edge); the judged remap must search the new positions
        import xarray as xr

        xyz_s = meshgen.mesh_xyz(src_mesh)
        first = ux.UxDataArray(np.zeros(len(P)), dims=["n_face"], uxgrid=gs, name="w")
        first.remap.nearest_neighbor(gd, remap_to=remap_to, coord_type=coord_type)
        newP = np.array([S.arc_midpoint(tuple(xyz_s[f[0]]), tuple(xyz_s[f[1]])) for f in src_mesh["faces"]])
        lon_new, lat_new = writers.lonlat_of(newP)
        gs.face_lon = xr.DataArray(lon_new, dims=["n_face"])
        gs.face_lat = xr.DataArray(lat_new, dims=["n_face"])
        gs.face_x = xr.DataArray(newP[:, 0].copy(), dims=["n_face"])
        gs.face_y = xr.DataArray(newP[:, 1].copy(), dims=["n_face"])
        gs.face_z = xr.DataArray(newP[:, 2].copy(), dims=["n_face"])
        P = newP
        if gd is gs and remap_to == "face centers":
            Q = newP
        site += ":after-moving-centres"
        ctx.label("history:remap-move-centres-remap")
    if _in_cap(P) or _in_cap(Q):
        ctx.label("no-verdict:element-in-pole-cap")
        return fails
    n_src, n_dst = len(P), len(Q)
    lead = tuple(case["lead"])
    rs = np.random.RandomState(case["seed"] % (2**32))
    raw = rs.randint(-40, 41, size=lead + (n_src,))
    data = (raw / 8.0).astype(case["dtype"]) if case["dtype"].startswith("float") else raw.astype(case["dtype"])
    dims = datagen.LEAD_NAMES[: len(lead)] + [KIND_DIM[kind]]
    da = ux.UxDataArray(data.copy(), dims=dims, uxgrid=gs, name="v")  # the library gets its own copy; expectations use `data`
    D = S.angle_np(Q[:, None, :], P[None, :, :])  # (n_dst, n_src)
    want_dims = tuple(datagen.LEAD_NAMES[: len(lead)] + [KIND_DIM[remap_to]])

    def dims_grid(res, what):
        ctx.ev("dims_grid")
        if not isinstance(res, ux.UxDataArray) or tuple(res.dims) != want_dims or res.uxgrid is not gd or res.shape != lead + (n_dst,) or res.name != "v":
            bad("dims_grid", "wrong", f"{what}: type {type(res).__name__} dims {getattr(res, 'dims', None)} shape {getattr(res, 'shape', None)} (expected {want_dims} {lead + (n_dst,)}) name {getattr(res, 'name', None)} dest grid attached {getattr(res, 'uxgrid', None) is gd}")
            return False
        return True

    if case["method"] == "nn":
        nkw = dict(remap_to=remap_to, coord_type=coord_type)
        if case.get("defaults"):
            nkw = {a: v for a, v in nkw.items() if v != {"remap_to": "face centers", "coord_type": "spherical"}[a]}
        res = da.remap.nearest_neighbor(gd, **nkw)
        if not dims_grid(res, "nearest_neighbor"):
            return fails
        ctx.ev("input_unchanged")
        if not np.array_equal(np.asarray(da.values), data):
            bad("input_unchanged", "data-modified", "nearest_neighbor changed the source variable")
            return fails
        got = np.asarray(res.values)
        ctx.ev("nn_is_nearest")
        order = np.argsort(D, axis=1)
        skipped = 0
        for j in range(n_dst):
            i0 = order[j, 0]
            if n_src > 1 and D[j, order[j, 1]] - D[j, i0] < GAP:
                skipped += 1
                continue
            if not np.array_equal(got[..., j], data[..., i0]):
                # which source element did it take, if any?
                cand = [int(i) for i in range(n_src) if np.array_equal(got[..., j], data[..., i])]
                bad(
                    "nn_is_nearest",
                    "not-nearest",
                    f"destination {remap_to} {j} at {S.xyz2ll(tuple(Q[j]))}: nearest source {kind} is {int(i0)} at {S.xyz2ll(tuple(P[i0]))} ({D[j, i0]:.6f} rad) with value {data[..., i0].ravel()[:3]}, got {got[..., j].ravel()[:3]} (= value of source element(s) {cand[:4]}, at {[round(float(D[j, i]), 6) for i in cand[:4]]} rad)",
                )
                break
        ctx.label("nn-ties-skipped" if skipped else "nn-no-ties")
        # identity: whenever destination element j sits exactly where source element j does (the source grid itself, or a
        # second grid of the same mesh whose numbering and centres coincide with the source's at the time of the call)
        if not fails and kind == remap_to and skipped == 0 and P.shape == Q.shape and bool(np.all(S.angle_np(P, Q) < 1e-12)):
            ctx.ev("nn_identity")
            if not np.array_equal(got, data):
                bad("nn_identity", "not-identity", "remapping onto the source grid's own elements changed the values")
        return fails

    # ---- inverse distance weighted
    k = max(2, min(case["k"], nn_, n_src))
    if case.get("defaults") and min(nn_, n_src) >= 8 and case["seed"] % 2 == 0:
        k = 8  # the documented default, left out of the call below
    if k < 2 or n_src < 2:
        ctx.label("no-verdict:too-few-sources")
        return fails
    power = case["power"]
    kw = dict(remap_to=remap_to, coord_type=coord_type, power=power, k=k)
    if case.get("defaults"):
        kw = {a: v for a, v in kw.items() if v != {"remap_to": "face centers", "coord_type": "spherical", "power": 2, "k": 8}[a]}
        ctx.label("idw-defaults-omitted:" + ",".join(sorted(set(("remap_to", "coord_type", "power", "k")) - set(kw))))
    res = da.remap.inverse_distance_weighted(gd, **kw)
    if not dims_grid(res, "inverse_distance_weighted"):
        return fails
    ctx.ev("input_unchanged")
    if not np.array_equal(np.asarray(da.values), data):
        bad("input_unchanged", "data-modified", "inverse_distance_weighted changed the source variable")
        return fails
    got = np.asarray(res.values, float)
    # weight matrix through an identity field: W[e, j] = weight of source element e at destination j
    eye = ux.UxDataArray(np.eye(n_src), dims=["ens", KIND_DIM[kind]], uxgrid=gs, name="w")
    W = np.asarray(eye.remap.inverse_distance_weighted(gd, **kw).values, float)
    ctx.ev("idw_convex")
    if W.shape != (n_src, n_dst):
        bad("idw_convex", "shape", f"weights shape {W.shape}")
        return fails
    srt = np.sort(D, axis=1)
    for j in range(n_dst):
        w = W[:, j]
        if np.any(w < -1e-12) or abs(w.sum() - 1.0) > 1e-9:
            bad("idw_convex", "not-convex", f"destination {j}: weights min {w.min()!r} sum {w.sum()!r}")
            break
        kth = srt[j, k - 1]
        amb = k < n_src and srt[j, k] - kth < GAP
        outside = np.nonzero(D[j] > kth + GAP)[0]
        if not amb and np.any(np.abs(w[outside]) > 1e-12):
            e = int(outside[np.argmax(np.abs(w[outside]))])
            bad("idw_convex", "weight-outside-k-nearest", f"destination {remap_to} {j}: source {kind} {e} at {D[j, e]:.6f} rad has weight {w[e]!r} but the k={k} nearest end at {kth:.6f} rad")
            break
        # (when the k-th and the (k+1)-th distance are apart, the k nearest are a definite set, the k-th itself included)
        inside = np.nonzero(D[j] <= kth)[0] if not amb else np.nonzero(D[j] < kth - GAP)[0]
        if np.any(w[inside] <= 0):
            bad("idw_convex", "nearest-has-no-weight", f"destination {j}: one of the k={k} nearest sources has weight 0")
            break
        ctx.ev("idw_weights_monotone")
        near = np.nonzero(w > 1e-15)[0]
        o = near[np.argsort(D[j, near])]
        viol = [(int(o[a]), int(o[a + 1])) for a in range(len(o) - 1) if D[j, o[a + 1]] - D[j, o[a]] > GAP and w[o[a + 1]] > w[o[a]] * (1 + 1e-9) + 1e-15]
        if viol:
            a, b = viol[0]
            bad("idw_weights_monotone", "increasing", f"destination {j}: source {a} at {D[j, a]:.6f} rad has weight {w[a]!r} < weight {w[b]!r} of source {b} at {D[j, b]:.6f} rad (power {power})")
            break
    if fails:
        return fails
    ctx.ev("idw_linear")
    exp = np.tensordot(data.astype(float), W, axes=([-1], [0]))
    tol = 1e-5 if case["dtype"] == "float32" else 1e-9
    if not np.allclose(got, exp, rtol=tol, atol=tol):
        bad("idw_linear", "not-weights-times-data", f"max deviation {np.abs(got - exp).max()!r} from data @ weights")
    ctx.ev("idw_constant")
    const = ux.UxDataArray(np.full(lead + (n_src,), 2.5), dims=dims, uxgrid=gs, name="v")
    rc = np.asarray(const.remap.inverse_distance_weighted(gd, **kw).values, float)
    if not np.allclose(rc, 2.5, rtol=1e-12, atol=1e-12):
        bad("idw_constant", "not-reproduced", f"constant 2.5 became {rc.ravel()[:4]}")
    return fails
