"""Builds uxarray objects from abstract meshes (imports uxarray lazily)."""

import numpy as np


def ux():
    import uxarray

    return uxarray


def consts():
    from uxarray.constants import INT_DTYPE, INT_FILL_VALUE

    return INT_DTYPE, int(INT_FILL_VALUE)


def padded_faces(mesh, fill=None, dtype=None, width=None):
    INT_DTYPE, FILL = consts()
    fill = FILL if fill is None else fill
    dtype = INT_DTYPE if dtype is None else dtype
    faces = mesh["faces"]
    w = max(len(f) for f in faces) if width is None else width
    arr = np.full((len(faces), w), fill, dtype=dtype)
    for i, f in enumerate(faces):
        arr[i, : len(f)] = f
    return arr


LAYOUTS = ["C", "F", "T", "strided"]


def with_layout(arr, layout):
    """The same 2-D table in another memory layout: Fortran order, the transposed view of the (width, n) table (what a
    reader of a column-major file hands over), or a non-contiguous view into a wider buffer."""
    if layout == "F":
        return np.asfortranarray(arr)
    if layout == "T":
        return np.ascontiguousarray(arr.T).T
    if layout == "strided":
        buf = np.zeros((arr.shape[0], 2 * arr.shape[1]), dtype=arr.dtype)
        buf[:, ::2] = arr
        return buf[:, ::2]
    return arr


def grid_from_mesh(mesh, coord_dtype="float64", layout=None, **kw):
    """Standard-form construction through Grid.from_topology (only derivations are under
    test afterwards).  coord_dtype: storage type of node_lon / node_lat; layout: memory layout of the arrays handed
    over (see with_layout; coordinates become strided views for every layout but "C")."""
    INT_DTYPE, FILL = consts()
    if layout is None:
        layout = mesh.get("layout", "C")  # a fifth of the generated meshes ask for a non-C layout (meshgen.finish_mesh)
    nodes = np.asarray(mesh["nodes"], float).reshape(-1, 2)
    conn = with_layout(padded_faces(mesh), layout)
    if layout != "C":
        nodes = np.asfortranarray(nodes)  # the columns stay contiguous, the rows do not
        nodes2 = np.zeros((2 * len(nodes), 2))
        nodes2[::2] = nodes
        nodes = nodes2[::2]
    return ux().Grid.from_topology(
        node_lon=nodes[:, 0].astype(coord_dtype), node_lat=nodes[:, 1].astype(coord_dtype), face_node_connectivity=conn, fill_value=FILL, **kw
    )


def cartesian_kw(mesh, radius):
    """from_topology keywords supplying the nodes' Cartesian coordinates on a sphere of the given radius (what an
    MPAS or Exodus source with its own sphere radius delivers)."""
    from . import meshgen

    xyz = meshgen.mesh_xyz(mesh) * float(radius)
    return {"node_x": np.ascontiguousarray(xyz[:, 0]), "node_y": np.ascontiguousarray(xyz[:, 1]), "node_z": np.ascontiguousarray(xyz[:, 2])}


def face_corner_xyz(grid):
    """Per face: list of unit vectors of its corners as the *grid* reports them (lon/lat)."""
    from . import sphere as S

    INT_DTYPE, FILL = consts()
    lon = np.asarray(grid.node_lon.values, float)
    lat = np.asarray(grid.node_lat.values, float)
    conn = np.asarray(grid.face_node_connectivity.values)
    if conn.ndim == 1:
        conn = conn[None, :]
    out = []
    for row in conn:
        idx = [int(i) for i in row if i != FILL]
        out.append([S.ll2xyz(lon[i], lat[i]) for i in idx])
    return out


def mesh_face_xyz(mesh):
    from . import sphere as S

    nodes = mesh["nodes"]
    return [[S.ll2xyz(nodes[i][0], nodes[i][1]) for i in f] for f in mesh["faces"]]
