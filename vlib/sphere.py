"""Independent spherical geometry (float64).  No uxarray imports."""

import math

import numpy as np

PI = math.pi
POLE_CAP = 1.0 - 1e-8  # library snaps |z| above this to the pole


def ll2xyz(lon_deg, lat_deg):
    lo, la = math.radians(lon_deg), math.radians(lat_deg)
    c = math.cos(la)
    return (c * math.cos(lo), c * math.sin(lo), math.sin(la))


def xyz2ll(v):
    x, y, z = v
    n = math.sqrt(x * x + y * y + z * z)
    x, y, z = x / n, y / n, z / n
    lat = math.degrees(math.asin(max(-1.0, min(1.0, z))))
    lon = math.degrees(math.atan2(y, x))
    return lon, lat


def ll2xyz_np(lon_deg, lat_deg):
    lo, la = np.radians(np.asarray(lon_deg, float)), np.radians(np.asarray(lat_deg, float))
    c = np.cos(la)
    return np.stack([c * np.cos(lo), c * np.sin(lo), np.sin(la)], axis=-1)


def unit(v):
    v = np.asarray(v, float)
    return v / np.linalg.norm(v, axis=-1, keepdims=True)


def cross(a, b):
    return (a[1] * b[2] - a[2] * b[1], a[2] * b[0] - a[0] * b[2], a[0] * b[1] - a[1] * b[0])


def dot(a, b):
    return a[0] * b[0] + a[1] * b[1] + a[2] * b[2]


def norm(a):
    return math.sqrt(dot(a, a))


def normalize(a):
    n = norm(a)
    return (a[0] / n, a[1] / n, a[2] / n)


def det3(a, b, c):
    return dot(a, cross(b, c))


def angle(a, b):
    """Great-circle distance in radians between unit vectors (robust atan2 form)."""
    return math.atan2(norm(cross(a, b)), dot(a, b))


def angle_np(a, b):
    a, b = np.asarray(a, float), np.asarray(b, float)
    return np.arctan2(np.linalg.norm(np.cross(a, b), axis=-1), np.sum(a * b, axis=-1))


def same_position(a, b, tol=1e-7):
    """a, b unit vectors.  Equal when within tol rad, or both inside the same pole cap."""
    if angle(a, b) <= tol:
        return True
    if abs(a[2]) > POLE_CAP and abs(b[2]) > POLE_CAP and (a[2] > 0) == (b[2] > 0):
        return True
    return False


def tri_area(a, b, c):
    """Signed solid angle of the spherical triangle (Van Oosterom & Strackee)."""
    # det[a, b, c] = det[a, b - a, c - a]: the differences of nearby unit vectors are exact in floating
    # point, so the numerator keeps its relative accuracy for very small triangles
    ba = (b[0] - a[0], b[1] - a[1], b[2] - a[2])
    ca = (c[0] - a[0], c[1] - a[1], c[2] - a[2])
    num = dot(a, cross(ba, ca))
    den = 1.0 + dot(a, b) + dot(b, c) + dot(c, a)
    return 2.0 * math.atan2(num, den)


def poly_area(vs):
    """Area of a spherical polygon with great-circle edges (fan from corner 0).
    Exact for convex polygons; signed positive for counter-clockwise seen from outside."""
    s = 0.0
    for i in range(1, len(vs) - 1):
        s += tri_area(vs[0], vs[i], vs[i + 1])
    return s


def slerp(a, b, t):
    w = angle(a, b)
    if w < 1e-15:
        return a
    s = math.sin(w)
    k0, k1 = math.sin((1 - t) * w) / s, math.sin(t * w) / s
    return normalize((k0 * a[0] + k1 * b[0], k0 * a[1] + k1 * b[1], k0 * a[2] + k1 * b[2]))


def arc_midpoint(a, b):
    return normalize((a[0] + b[0], a[1] + b[1], a[2] + b[2]))


def arc_lat_extremes(a, b):
    """(lat_min, lat_max) in radians over the minor arc a->b (a, b unit, not antipodal).
    Derivation: the great circle's highest point is the normalised projection of z-hat on
    the circle's plane; it counts only if it lies strictly between a and b."""
    za, zb = max(-1, min(1, a[2])), max(-1, min(1, b[2]))
    lo, hi = min(za, zb), max(za, zb)
    n = cross(a, b)
    nn = norm(n)
    if nn > 1e-15:
        n = (n[0] / nn, n[1] / nn, n[2] / nn)
        # projection of z on plane: z - (z.n) n
        # (1 - n_z^2 written as n_x^2 + n_y^2: no cancellation for near-equatorial circles)
        p = (-n[2] * n[0], -n[2] * n[1], n[0] * n[0] + n[1] * n[1])
        pn = norm(p)
        if pn > 1e-300:
            p = (p[0] / pn, p[1] / pn, p[2] / pn)
            for q in (p, (-p[0], -p[1], -p[2])):
                # q between a and b on the minor arc?
                if dot(cross(a, q), n) > 0 and dot(cross(q, b), n) > 0:
                    hi = max(hi, q[2])
                    lo = min(lo, q[2])
    return math.asin(max(-1, min(1, lo))), math.asin(max(-1, min(1, hi)))


def point_in_convex(vs, p, eps=0.0):
    """p strictly inside the convex spherical polygon vs (counter-clockwise)?"""
    n = len(vs)
    for i in range(n):
        if det3(vs[i], vs[(i + 1) % n], p) <= eps:
            return False
    return True


def is_strictly_convex(vs, eps=1e-9):
    n = len(vs)
    for i in range(n):
        if det3(vs[i], vs[(i + 1) % n], vs[(i + 2) % n]) <= eps:
            return False
    return True


def is_strictly_convex_rel(vs, eps=1e-3):
    """Strict convexity judged on the sine of the turning angle at every corner (scale-invariant: a cell of a few
    metres qualifies like one of a thousand kilometres)."""
    n = len(vs)
    for i in range(n):
        a, b, c = vs[i], vs[(i + 1) % n], vs[(i + 2) % n]
        den = norm(cross(a, b)) * norm(cross(b, c))
        if den <= 0 or det3(a, b, c) / den <= eps:
            return False
    return True


def lon_cover_interval(lons_deg):
    """Shortest closed interval of the circle covering all longitudes (degrees).
    Returns (lon_min, lon_max) in [0,360) convention with lon_min > lon_max meaning wrap."""
    ls = sorted(x % 360.0 for x in lons_deg)
    if not ls:
        return None
    best_gap, best_i = -1.0, 0
    n = len(ls)
    for i in range(n):
        nxt = ls[(i + 1) % n] + (360.0 if i == n - 1 else 0.0)
        gap = nxt - ls[i]
        if gap > best_gap:
            best_gap, best_i = gap, i
    lo = ls[(best_i + 1) % n]
    hi = ls[best_i]
    return lo, hi


def quat_rotate(q, v):
    """Rotate vector v by unit quaternion q=(w,x,y,z)."""
    w, x, y, z = q
    vx, vy, vz = v
    # t = 2 q_vec x v
    tx, ty, tz = 2 * (y * vz - z * vy), 2 * (z * vx - x * vz), 2 * (x * vy - y * vx)
    return (
        vx + w * tx + (y * tz - z * ty),
        vy + w * ty + (z * tx - x * tz),
        vz + w * tz + (x * ty - y * tx),
    )


def rot_matrix_from_quat(q):
    w, x, y, z = q
    n = math.sqrt(w * w + x * x + y * y + z * z)
    w, x, y, z = w / n, x / n, y / n, z / n
    return np.array(
        [
            [1 - 2 * (y * y + z * z), 2 * (x * y - z * w), 2 * (x * z + y * w)],
            [2 * (x * y + z * w), 1 - 2 * (x * x + z * z), 2 * (y * z - x * w)],
            [2 * (x * z - y * w), 2 * (y * z + x * w), 1 - 2 * (x * x + y * y)],
        ]
    )


def cyclic_equal_positions(A, B, tol=1e-7):
    """A, B lists of unit vectors; equal when B is a rotation (not reflection) of A.
    Consecutive duplicate positions are collapsed first."""

    def collapse(P):
        out = []
        for p in P:
            if not out or not same_position(out[-1], p, tol):
                out.append(p)
        while len(out) > 1 and same_position(out[0], out[-1], tol):
            out.pop()
        return out

    A, B = collapse(list(A)), collapse(list(B))
    if len(A) != len(B):
        return False
    n = len(A)
    if n == 0:
        return True
    for s in range(n):
        if all(same_position(A[i], B[(i + s) % n], tol) for i in range(n)):
            return True
    return False
