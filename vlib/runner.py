"""Runner: seeding, sharding, Hypothesis loop, known findings, evidence, exit codes.

Exit codes: 0 property held on everything explored (KNOWN-FINDING lines allowed),
1 at least one unlisted violation (VIOLATION lines printed), 2 harness error.
"""

from __future__ import annotations

import fnmatch
import hashlib
import importlib
import json
import os
import shutil
import sys
import time
import traceback
from collections import Counter

from .core import (
    CaseFailed,
    Ctx,
    Failure,
    HarnessError,
    WrongReturn,
    case_hash,
    compact,
    dumps,
    innermost_lib_frame,
)

VERIF_ROOT = os.path.dirname(os.path.dirname(os.path.abspath(__file__)))
MAX_ROUNDS = 4


# --------------------------------------------------------------------------- setup
def repo_root():
    return os.path.realpath(os.environ.get("VERIF_REPO", "/repo"))


def source_hash(repo):
    h = hashlib.sha256()
    base = os.path.join(repo, "uxarray")
    for dp, dn, fn in sorted(os.walk(base)):
        dn.sort()
        for f in sorted(fn):
            if f.endswith(".py"):
                p = os.path.join(dp, f)
                h.update(os.path.relpath(p, base).encode())
                with open(p, "rb") as fh:
                    h.update(fh.read())
    return h.hexdigest()[:20]


def prepare_numba_cache(repo):
    """numba's on-disk cache only looks at the mtime of the kernel's own file, so an
    edit in a callee is missed; key the cache directory by a hash of all sources."""
    base = os.environ.get("VERIF_NUMBA_BASE") or os.path.join(VERIF_ROOT, ".numba")  # developer tools running several trees at once keep them apart
    os.makedirs(base, exist_ok=True)
    d = os.path.join(base, source_hash(repo))
    os.makedirs(d, exist_ok=True)
    try:
        os.utime(d, None)
        others = sorted(
            (os.path.join(base, x) for x in os.listdir(base)),
            key=lambda p: os.path.getmtime(p),
            reverse=True,
        )
        for old in others[4:]:
            shutil.rmtree(old, ignore_errors=True)
    except OSError:
        pass
    return d


def import_uxarray(repo):
    if repo not in sys.path[:1]:
        sys.path.insert(0, repo)
    import uxarray  # noqa

    got = os.path.realpath(os.path.dirname(uxarray.__file__))
    want = os.path.join(repo, "uxarray")
    if got != want:
        raise HarnessError(f"uxarray imported from {got}, expected {want}")
    return uxarray


# --------------------------------------------------------------------------- known findings
def load_known(prop):
    p = os.path.join(VERIF_ROOT, "known_findings.json")
    if not os.path.exists(p):
        return []
    with open(p) as fh:
        entries = json.load(fh)
    return [e for e in entries if e.get("property") == prop and e.get("status") == "known"]


def known_match(entry, f: Failure):
    return (
        fnmatch.fnmatchcase(f.oracle, entry["oracle"])
        and fnmatch.fnmatchcase(f.site, entry["site"])
        and fnmatch.fnmatchcase(f.kind, entry["kind"])
    )


# --------------------------------------------------------------------------- case execution
def safe_run_case(mod, case, ctx, repo):
    try:
        out = mod.run_case(case, ctx)
        return list(out or [])
    except HarnessError:
        raise
    except WrongReturn as e:
        return [Failure("returns_documented_object", e.what, "type=" + e.type_name, str(e))]
    except Exception as e:  # noqa
        site = innermost_lib_frame(e.__traceback__, repo)
        tb = "".join(traceback.format_exception(type(e), e, e.__traceback__))
        if site is None:
            raise HarnessError("exception outside uxarray while running a case:\n" + tb) from e
        return [Failure("no_exception", site, f"raises:{type(e).__name__}", tb[-1500:])]


def _load_mod(prop):
    return importlib.import_module(f"vlib.props.{prop.lower()}")


# --------------------------------------------------------------------------- one shard
def shard_main(a):
    """Runs in a spawned process.  Returns a JSON-able result dict."""
    t0 = time.time()
    for k, v in a.get("env", {}).items():
        os.environ[k] = str(v)
    os.environ.setdefault("OMP_NUM_THREADS", "1")
    os.environ.setdefault("OPENBLAS_NUM_THREADS", "1")
    os.environ.setdefault("MKL_NUM_THREADS", "1")
    import warnings

    warnings.filterwarnings("ignore")
    res = {
        "shard": a["shard"],
        "harness_error": None,
        "violations": [],
        "active_known": [],
    }
    try:
        repo = a["repo"]
        import_uxarray(repo)
        try:
            import numba

            if not os.environ.get("NUMBA_DISABLE_JIT"):
                numba.set_num_threads(max(1, min(a.get("numba_threads", 2), numba.config.NUMBA_NUM_THREADS)))
        except Exception:
            pass
        mod = _load_mod(a["prop"])
        ctx = Ctx(a["prop"], a["tier"], a["seed"], a["shard"], a["scratch"])
        ctx.extra["env"] = dict(a.get("env", {}))
        if hasattr(mod, "setup"):
            mod.setup(ctx)

        # ---- known findings: replay the stored cases; only reproducing ones are accepted
        active = []
        dummy = Ctx(a["prop"], a["tier"], a["seed"], a["shard"], a["scratch"])
        for e in a["known"]:
            with open(os.path.join(VERIF_ROOT, e["case"])) as fh:
                kcase = json.load(fh)
            kcase = kcase.get("case", kcase)
            fails = safe_run_case(mod, kcase, dummy, repo)
            if any(known_match(e, f) for f in fails):
                active.append(e)
        res["active_known"] = [e["id"] for e in active]
        excl = frozenset(e["exclude_tag"] for e in active if e.get("exclude_tag"))

        ignore = set()
        deadline = t0 + a["wall_cap_s"]

        def judge(case, fails, state):
            for f in fails:
                hit = None
                for e in active:
                    if known_match(e, f):
                        hit = e["id"]
                        break
                if hit:
                    ctx.known_hits[hit] += 1
                    continue
                if f.sig in ignore:
                    continue
                if state["target"] is None:
                    state["target"] = f.sig
                if f.sig == state["target"]:
                    state["last"] = (json.loads(dumps(case)), f)
                    raise CaseFailed(f)

        cur_path = a["scratch"].rstrip("/") + ".current.json"
        os.makedirs(os.path.dirname(cur_path), exist_ok=True)

        def record(case):
            # the case about to run, for the parent to find should this process die inside compiled library code
            with open(cur_path, "w") as fh:
                fh.write(dumps(case))
            ctx.evaluations += 1
            labels, nontrivial = mod.classify(case)
            ctx.label(*labels)
            if nontrivial:
                ctx.nontrivial.add(case_hash(case))
            key = tuple(sorted(labels))
            if len(ctx.samples) < 2 or (
                nontrivial and key not in ctx.sample_labels and len(ctx.samples) < 6
            ):
                ctx.sample_labels.add(key)
                ctx.samples.append(compact(json.loads(dumps(case))))

        # ---- exhaustive / enumerated sub-check
        if hasattr(mod, "enumerate_cases"):
            state = {"target": None, "last": None}
            n_enum = 0
            try:
                for case in mod.enumerate_cases(a["tier"], a["shard"], a["nshards"], ctx):
                    n_enum += 1
                    record(case)
                    fails = safe_run_case(mod, case, ctx, repo)
                    judge(case, fails, state)
            except CaseFailed:
                case, f = state["last"]
                res["violations"].append({"case": case, "failure": f.to_json(), "phase": "enumerate"})
                ignore.add(f.sig)
            ctx.extra["enumerated"] = n_enum

        # ---- generated search
        n_examples = a["examples"]
        if n_examples > 0:
            import hypothesis
            from hypothesis import HealthCheck, Phase, given, settings
            from hypothesis import strategies as st  # noqa
            from hypothesis.errors import Flaky

            try:
                from hypothesis.errors import FlakyFailure
            except Exception:  # pragma: no cover
                FlakyFailure = Flaky

            from . import core as _core

            _core.N_STRATA = max(1, int(a.get("n_groups", a["nshards"])))
            _core.STRATUM = (int(a.get("seed_group", a["shard"])) + int(a["seed"])) % _core.N_STRATA
            strat = mod.strategy(a["tier"], excl)
            for rnd in range(MAX_ROUNDS):
                state = {"target": None, "last": None}
                n = n_examples if rnd == 0 else max(20, n_examples // 3)

                @hypothesis.seed(a["seed"] * 100003 + a.get("seed_group", a["shard"]) * 101 + rnd * 7)
                @settings(
                    max_examples=n,
                    database=None,
                    deadline=None,
                    derandomize=False,
                    report_multiple_bugs=False,
                    print_blob=False,
                    phases=(Phase.generate, Phase.shrink),
                    suppress_health_check=[HealthCheck.too_slow, HealthCheck.data_too_large, HealthCheck.large_base_example],
                )
                @given(strat)
                def t(case):
                    if time.time() > deadline and state["target"] is None:
                        ctx.extra["skipped_after_wall_cap"] = ctx.extra.get("skipped_after_wall_cap", 0) + 1
                        return
                    record(case)
                    fails = safe_run_case(mod, case, ctx, repo)
                    judge(case, fails, state)

                try:
                    t()
                except CaseFailed:
                    case, f = state["last"]
                    res["violations"].append({"case": case, "failure": f.to_json(), "phase": f"generate/round{rnd}"})
                    ignore.add(f.sig)
                    continue
                except (Flaky, FlakyFailure) as e:  # noqa
                    if state["last"] is not None:
                        case, f = state["last"]
                        fj = f.to_json()
                        fj["detail"] = "[did not reproduce identically on re-execution: state leaks between cases] " + fj["detail"]
                        res["violations"].append({"case": case, "failure": fj, "phase": f"generate/round{rnd}/flaky"})
                        ignore.add(f.sig)
                        continue
                    raise HarnessError("hypothesis flaky without recorded failure: " + repr(e)) from e
                break

        if hasattr(mod, "teardown"):
            mod.teardown(ctx)
        res.update(
            evaluations=ctx.evaluations,
            nontrivial=sorted(ctx.nontrivial),
            classes=dict(ctx.classes),
            oracle_evals=dict(ctx.oracle_evals),
            known_hits=dict(ctx.known_hits),
            excluded=dict(ctx.excluded),
            samples=ctx.samples,
            extra=ctx.extra,
        )
    except HarnessError as e:
        res["harness_error"] = str(e)
    except BaseException as e:  # noqa
        res["harness_error"] = "".join(traceback.format_exception(type(e), e, e.__traceback__))
    res["wall_s"] = time.time() - t0
    shutil.rmtree(a["scratch"], ignore_errors=True)
    return res


# --------------------------------------------------------------------------- parent
CRASH_SIGNALS = {-11: "SIGSEGV", -6: "SIGABRT", -7: "SIGBUS", -8: "SIGFPE", -4: "SIGILL"}


def _shard_entry(a, out_path):
    import pickle

    res = shard_main(a)
    with open(out_path + ".tmp", "wb") as fh:
        pickle.dump(res, fh)
    os.replace(out_path + ".tmp", out_path)


def _budget(mod, tier):
    b = dict(shards=2, examples=200, wall_cap_s=600, numba_threads=2)
    b.update(getattr(mod, "BUDGET", {}).get(tier, {}))
    return b


def run_property(prop, tier="quick", seed=1, shards=None, examples=None, replay=None):
    t0 = time.time()
    repo = repo_root()
    prop = prop.upper()
    os.environ["NUMBA_CACHE_DIR"] = prepare_numba_cache(repo)
    # the property module itself must import without uxarray
    sys.path.insert(0, repo)
    mod = _load_mod(prop)
    known = load_known(prop)
    run_id = f"{prop}-{os.getpid()}"
    scratch_root = os.path.join(VERIF_ROOT, ".scratch", run_id)

    if replay:
        return _replay(prop, mod, replay, known, repo, scratch_root)

    b = _budget(mod, tier)
    if shards:
        b["shards"] = shards
    if examples is not None:
        b["examples"] = examples
    nshards = b["shards"]
    jobs = []
    for k in range(nshards):
        env = {}
        if hasattr(mod, "shard_env"):
            env = dict(mod.shard_env(tier, k, nshards) or {})
        seed_group = mod.shard_seed_group(tier, k, nshards) if hasattr(mod, "shard_seed_group") else k
        jobs.append(
            dict(
                seed_group=seed_group,
                prop=prop,
                tier=tier,
                seed=seed,
                shard=k,
                nshards=nshards,
                repo=repo,
                examples=b["examples"],
                wall_cap_s=b["wall_cap_s"],
                numba_threads=b["numba_threads"],
                known=known,
                env=env,
                scratch=os.path.join(scratch_root, f"shard{k}"),
            )
        )
    results = []
    n_groups = len({j["seed_group"] for j in jobs})
    for j in jobs:
        j["n_groups"] = n_groups
    import multiprocessing as mp
    import pickle

    # one spawned process per shard (never a pool: a process that dies inside compiled library code -- an out-of-bounds
    # write in a jitted kernel, say -- must not take the other shards' results with it)
    os.makedirs(scratch_root, exist_ok=True)
    mpc = mp.get_context("spawn")
    procs = []
    for j in jobs:
        out = os.path.join(scratch_root, f"shard{j['shard']}.result.pkl")
        pr = mpc.Process(target=_shard_entry, args=(j, out))
        pr.start()
        procs.append((j, pr, out))
    for j, pr, out in procs:
        pr.join()
        if os.path.exists(out):
            with open(out, "rb") as fh:
                results.append(pickle.load(fh))
            continue
        cur = j["scratch"].rstrip("/") + ".current.json"
        res = dict(shard=j["shard"], harness_error=None, violations=[], active_known=None, evaluations=0, nontrivial=[], classes={},
                   oracle_evals={}, known_hits={}, excluded={}, samples=[], extra={"shards_died": 1}, wall_s=0.0)
        if pr.exitcode in CRASH_SIGNALS and os.path.exists(cur):
            with open(cur) as fh:
                ccase = json.load(fh)
            f = Failure("no_crash", f"process-exit:{pr.exitcode}", "process-died",
                        f"the process running this case was terminated by signal {-pr.exitcode} ({CRASH_SIGNALS[pr.exitcode]}): compiled library code crashed")
            res["violations"].append({"case": ccase, "failure": f.to_json(), "phase": "crash"})
        else:
            res["harness_error"] = f"shard {j['shard']} ended with exit code {pr.exitcode} without a result" + ("" if os.path.exists(cur) else " before its first case")
        results.append(res)
    shutil.rmtree(scratch_root, ignore_errors=True)

    herr = [r for r in results if r.get("harness_error")]
    if herr:
        for r in herr:
            print(f"HARNESS-ERROR property={prop} shard={r['shard']}\n{r['harness_error']}", file=sys.stderr)
        return 2

    # ---- merge
    evaluations = sum(r["evaluations"] for r in results)
    nontrivial = set()
    classes, oracle_evals, known_hits, excluded = Counter(), Counter(), Counter(), Counter()
    samples, extra = [], {}
    for r in results:
        nontrivial.update(r["nontrivial"])
        classes.update(r["classes"])
        oracle_evals.update(r["oracle_evals"])
        known_hits.update(r["known_hits"])
        excluded.update(r["excluded"])
        samples.extend(r["samples"][:3] if nshards > 2 else r["samples"])
        for k, v in r["extra"].items():
            if isinstance(v, (int, float)) and not isinstance(v, bool):
                extra[k] = extra.get(k, 0) + v
            else:
                extra.setdefault(k, v)
    samples = samples[:10]

    active_ids = next((r["active_known"] for r in results if r["active_known"] is not None), [])
    for e in known:
        if e["id"] in active_ids:
            print(f"KNOWN-FINDING: property={prop} {e['id']}: {e['what']}")

    # ---- cross-shard comparison (e.g. JIT on vs off on identical cases)
    if hasattr(mod, "cross_shard_check"):
        xs, compared = mod.cross_shard_check(results)
        extra["cross_shard_cases_compared"] = compared
        for x in xs:
            results[0]["violations"].append({"case": {"cross_shard_case_hash": x["case_hash"], "shards": [x["shard"], x["shard"] + 1]}, "failure": x["failure"], "phase": "cross-shard"})
        extra.pop("paired_records", None)

    # ---- violations: one per distinct signature
    seen, viol = set(), []
    for r in results:
        for v in r["violations"]:
            f = v["failure"]
            sig = (f["oracle"], f["site"], f["kind"])
            if sig in seen:
                continue
            seen.add(sig)
            viol.append(v)
    os.makedirs(os.path.join(VERIF_ROOT, "replays"), exist_ok=True)
    for v in viol:
        f = v["failure"]
        h = case_hash(v["case"])[:10]
        safe = "".join(c if c.isalnum() or c in "-_" else "_" for c in f["oracle"])[:40]
        rel = os.path.join("replays", f"{prop}-{safe}-{h}.json")
        with open(os.path.join(VERIF_ROOT, rel), "w") as fh:
            fh.write(dumps({"property": prop, "seed": seed, "tier": tier, "failure": f, "phase": v["phase"], "case": v["case"]}, indent=1))
        print(f"VIOLATION property={prop} replay={rel}")
        print(f"  oracle={f['oracle']} site={f['site']} kind={f['kind']}")
        print("  " + f["detail"][:600].replace("\n", "\n  "))

    wall = time.time() - t0
    write_evidence(
        prop,
        mod,
        tier,
        seed,
        evaluations=evaluations,
        distinct_nontrivial=len(nontrivial),
        samples=samples,
        classes=dict(sorted(classes.items())),
        oracle_evals=dict(sorted(oracle_evals.items())),
        known_hits=dict(known_hits),
        known_active=active_ids,
        excluded=dict(excluded),
        shards=nshards,
        extra=extra,
        wall=wall,
        violations=len(viol),
        shard_env=[j["env"] for j in jobs],
    )
    print(
        f"{prop} tier={tier} seed={seed} shards={nshards} evaluations={evaluations} "
        f"distinct_nontrivial={len(nontrivial)} known_hits={sum(known_hits.values())} "
        f"violations={len(viol)} wall={wall:.1f}s"
    )
    return 1 if viol else 0


def write_evidence(prop, mod, tier, seed, *, evaluations, distinct_nontrivial, samples, classes, oracle_evals,
                   known_hits, known_active, excluded, shards, extra, wall, violations, shard_env):
    cov = {
        "evaluations": int(evaluations),
        "distinct_nontrivial": int(distinct_nontrivial),
        "rule": getattr(mod, "RULE", ""),
        "samples": samples,
        "classes": classes,
        "oracle_evaluations": oracle_evals,
        "known_findings_active": known_active,
        "known_hits": known_hits,
        "excluded_by_known": excluded,
        "shards": shards,
        "shard_env": shard_env,
    }
    if extra.get("enumerated") is not None:
        cov["enumerated_cases"] = extra.get("enumerated")
        cov["exhaustive_subcheck"] = getattr(mod, "EXHAUSTIVE_NOTE", "")
    for k, v in extra.items():
        if k not in ("enumerated", "env"):
            cov[k] = v
    ev = {
        "property_id": prop,
        "tier": tier,
        "seed": int(seed),
        "level": "exploration",
        "coverage": cov,
        "assumptions": list(getattr(mod, "ASSUMPTIONS", [])),
        "wall_s": round(wall, 2),
        "violations": int(violations),
    }
    # evidence/ describes runs against /repo itself; runs against another tree (VERIF_REPO, used by the
    # developer tools that apply seeded changes to a scratch copy) write elsewhere
    if repo_root() == os.path.realpath("/repo"):
        d = os.path.join(VERIF_ROOT, "evidence")
    else:
        d = os.path.join(VERIF_ROOT, ".scratch", "evidence-other-tree")
    os.makedirs(d, exist_ok=True)
    tmp = os.path.join(d, f".{prop}.json.tmp")
    with open(tmp, "w") as fh:
        fh.write(dumps(ev, indent=1))
    os.replace(tmp, os.path.join(d, f"{prop}.json"))


def _replay(prop, mod, path, known, repo, scratch_root):
    import_uxarray(repo)
    import warnings

    warnings.filterwarnings("ignore")
    with open(path if os.path.isabs(path) else os.path.join(VERIF_ROOT, path)) as fh:
        doc = json.load(fh)
    case = doc.get("case", doc)
    if doc.get("failure", {}).get("oracle") == "no_crash" and not os.environ.get("VERIF_REPLAY_INPROC"):
        # the recorded failure is a process death: replay it in a child so that this process survives to report it
        import subprocess

        r = subprocess.run([sys.executable, "-m", "vlib.cli", prop, "--replay", path], cwd=VERIF_ROOT, env=dict(os.environ, VERIF_REPLAY_INPROC="1"))
        if r.returncode in CRASH_SIGNALS:
            print(f"VIOLATION property={prop} replay={path}")
            print(f"  oracle=no_crash site=process-exit:{r.returncode} kind=process-died")
            return 1
        return r.returncode
    ctx = Ctx(prop, "replay", 0, 0, os.path.join(scratch_root, "replay"))
    if hasattr(mod, "setup"):
        mod.setup(ctx)
    try:
        fails = safe_run_case(mod, case, ctx, repo)
    except HarnessError as e:
        print(f"HARNESS-ERROR property={prop}\n{e}", file=sys.stderr)
        return 2
    finally:
        shutil.rmtree(scratch_root, ignore_errors=True)
    bad = 0
    for f in fails:
        hit = next((e["id"] for e in known if known_match(e, f)), None)
        if hit:
            print(f"KNOWN-FINDING: property={prop} {hit}: {f.oracle} {f.site} {f.kind}")
        else:
            bad += 1
            print(f"VIOLATION property={prop} replay={path}")
            print(f"  oracle={f.oracle} site={f.site} kind={f.kind}")
            print("  " + f.detail[:1500].replace("\n", "\n  "))
    if not fails:
        print(f"{prop} replay {path}: held")
    return 1 if bad else 0
