"""Set-based reference connectivity, built from the face lists alone.  Slow and obvious."""

from collections import Counter, defaultdict


def edge_key(a, b):
    return (a, b) if a < b else (b, a)


def face_edges(face):
    n = len(face)
    return [edge_key(face[j], face[(j + 1) % n]) for j in range(n)]


def edge_set(faces):
    s = set()
    for f in faces:
        s.update(face_edges(f))
    return s


def edge_faces(faces):
    """edge -> list of faces (with multiplicity when a face uses an edge twice)."""
    d = defaultdict(list)
    for fi, f in enumerate(faces):
        for e in face_edges(f):
            d[e].append(fi)
    return d


def node_faces(faces, n_node):
    d = {i: set() for i in range(n_node)}
    for fi, f in enumerate(faces):
        for n in f:
            d[n].add(fi)
    return d


def face_face_multiset(faces):
    """face -> Counter of neighbour faces, once per shared edge (manifold: <=2 faces/edge)."""
    ef = edge_faces(faces)
    out = {fi: Counter() for fi in range(len(faces))}
    for e, fl in ef.items():
        if len(fl) == 2 and fl[0] != fl[1]:
            a, b = fl
            out[a][b] += 1
            out[b][a] += 1
    return out


def is_manifold(faces):
    return all(len(v) <= 2 for v in edge_faces(faces).values())


def hole_edges(faces):
    return {e for e, fl in edge_faces(faces).items() if len(fl) == 1}


def is_closed(faces):
    return all(len(v) == 2 for v in edge_faces(faces).values())


def node_valence(faces, n_node):
    return {n: len(s) for n, s in node_faces(faces, n_node).items()}


def restrict(mesh, face_ids):
    """Sub-mesh consisting of the given faces (in that order), nodes compacted in
    ascending order of their old index.  Returns (submesh, old_node_ids)."""
    faces = [mesh["faces"][i] for i in face_ids]
    used = sorted({n for f in faces for n in f})
    remap = {o: k for k, o in enumerate(used)}
    return (
        {"nodes": [mesh["nodes"][o] for o in used], "faces": [[remap[n] for n in f] for f in faces]},
        used,
    )


def dual_ring(faces, node):
    """Faces around `node` ordered by walking across shared edges.  Returns
    (ring, closed) where closed tells whether the walk returned to its start (interior
    node).  Orientation: follows the faces' own (ccw) orientation."""
    inc = [fi for fi, f in enumerate(faces) if node in f]
    if not inc:
        return [], False
    # for each incident face: previous and next corner around node
    nxt, prv = {}, {}
    for fi in inc:
        f = faces[fi]
        k = f.index(node)
        a, b = f[(k + 1) % len(f)], f[(k - 1) % len(f)]
        # ccw face (.., b, node, a, ..): going ccw around node we enter through edge (node,a)
        # and leave through edge (node,b)
        nxt[a] = (fi, b)
        prv[b] = (fi, a)
    # find a start: an 'a' that is nobody's 'b' (boundary) else any
    starts = [a for a in nxt if a not in prv]
    closed = not starts
    cur = starts[0] if starts else min(nxt)
    ring = []
    seen = set()
    while cur in nxt and cur not in seen:
        seen.add(cur)
        fi, b = nxt[cur]
        ring.append(fi)
        cur = b
    return ring, closed and len(ring) == len(inc)
