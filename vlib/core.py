"""Shared small types: Failure, Ctx (per-shard counters), JSON helpers."""

from __future__ import annotations

import hashlib
import json
import math
import os
import traceback
from collections import Counter


class Failure:
    """One oracle disagreement.  (oracle, site, kind) is the signature used for
    known-finding matching; detail is free text for humans."""

    __slots__ = ("oracle", "site", "kind", "detail")

    def __init__(self, oracle, site, kind, detail=""):
        self.oracle = str(oracle)
        self.site = str(site)
        self.kind = str(kind)
        self.detail = str(detail)[:2000]

    @property
    def sig(self):
        return (self.oracle, self.site, self.kind)

    def to_json(self):
        return {
            "oracle": self.oracle,
            "site": self.site,
            "kind": self.kind,
            "detail": self.detail,
        }

    def __repr__(self):
        return f"Failure({self.oracle!r}, {self.site!r}, {self.kind!r}, {self.detail[:200]!r})"


class CaseFailed(Exception):
    """Raised inside the @given body so that Hypothesis shrinks."""

    def __init__(self, failure):
        super().__init__(repr(failure))
        self.failure = failure


class HarnessError(Exception):
    pass


class Ctx:
    """Per-shard bookkeeping handed to run_case."""

    def __init__(self, prop, tier, seed, shard, scratch):
        self.prop = prop
        self.tier = tier
        self.seed = seed
        self.shard = shard
        self.scratch = scratch
        self.oracle_evals = Counter()
        self.classes = Counter()
        self.known_hits = Counter()
        self.excluded = Counter()
        self.evaluations = 0
        self.nontrivial = set()
        self.samples = []
        self.sample_labels = set()
        self.extra = {}
        self._tmp_n = 0

    # --- used by property modules
    def ev(self, oracle, n=1):
        """Count an oracle evaluation (reported per oracle in the evidence)."""
        self.oracle_evals[oracle] += n

    def label(self, *labels):
        for lab in labels:
            self.classes[lab] += 1

    def tmp_path(self, suffix):
        self._tmp_n += 1
        os.makedirs(self.scratch, exist_ok=True)
        return os.path.join(self.scratch, f"f{self._tmp_n}{suffix}")


def case_hash(case) -> str:
    return hashlib.sha1(dumps(case).encode()).hexdigest()[:16]


def _default(o):
    import numpy as np

    if isinstance(o, np.ndarray):
        return o.tolist()
    if isinstance(o, (np.integer,)):
        return int(o)
    if isinstance(o, (np.floating,)):
        return float(o)
    if isinstance(o, (np.bool_,)):
        return bool(o)
    if isinstance(o, (set, frozenset)):
        return sorted(o)
    if isinstance(o, tuple):
        return list(o)
    raise TypeError(f"not JSON-able: {type(o)}")


def dumps(obj, **kw) -> str:
    return json.dumps(obj, default=_default, sort_keys=True, **kw)


def compact(obj, max_list=12, depth=0):
    """Shorten a case for the evidence samples (lists truncated, marked)."""
    if isinstance(obj, dict):
        return {k: compact(v, max_list, depth + 1) for k, v in obj.items()}
    if isinstance(obj, (list, tuple)):
        out = [compact(v, max_list, depth + 1) for v in obj[:max_list]]
        if len(obj) > max_list:
            out.append(f"... ({len(obj)} items)")
        return out
    if isinstance(obj, float):
        if math.isnan(obj) or math.isinf(obj):
            return repr(obj)
        return float(f"{obj:.9g}")
    try:
        import numpy as np

        if isinstance(obj, np.generic):
            return compact(obj.item(), max_list, depth)
        if isinstance(obj, np.ndarray):
            return compact(obj.tolist(), max_list, depth)
    except Exception:
        pass
    return obj


def innermost_lib_frame(tb, repo_root):
    """Return 'file.py:function' of the innermost traceback frame that lies in
    <repo_root>/uxarray, or None if the traceback never enters it."""
    root = os.path.join(os.path.realpath(repo_root), "uxarray") + os.sep
    hit = None
    for fs in traceback.extract_tb(tb):
        fn = os.path.realpath(fs.filename)
        if fn.startswith(root):
            hit = f"{os.path.relpath(fn, root)}:{fs.name}"
    return hit


# ----------------------------------------------------------------------------- stratified choice
# Hypothesis draws the first elements of a sampled_from list several times more often than the last ones
# (measured: 80 vs 16 of 220 for a five-element list).  Classes that need two or three late choices at once
# are then starved.  Every shard (and seed) therefore reads its option lists from another starting point:
# `sampled_from` is st.sampled_from with the list rotated by an offset that depends on the shard's stratum.
STRATUM = 0
N_STRATA = 1


def sampled_from(seq):
    from hypothesis import strategies as st

    seq = list(seq)
    n = len(seq)
    if n <= 1:
        return st.sampled_from(seq)
    return st.integers(0, n - 1).map(lambda i: seq[(i + (STRATUM * n) // max(1, N_STRATA)) % n])


class WrongReturn(Exception):
    """A public call handed back something that is not the documented kind of object (None, a tuple, ...)."""

    def __init__(self, what, obj):
        super().__init__(f"{what} returned {type(obj).__name__}")
        self.what, self.type_name = what, type(obj).__name__


def need(obj, attr, what):
    """obj must offer `attr` (the documented kind of result of the public call `what`); otherwise the case fails
    with oracle returns_documented_object -- a library failure, not a harness error."""
    if obj is None or not hasattr(obj, attr):
        raise WrongReturn(what, obj)
    return obj
